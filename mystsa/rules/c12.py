"""C12 - Sphinx cross-document links: classification, resolver totality, one warning, roles, attributes."""

from __future__ import annotations

import ast

from ..callgraph import get_callgraph
from ..corpus import (
    Corpus,
    FunctionInfo,
    Unsupported,
    dotted,
    parent,
    short,
    splice,
    unparse,
)
from ..flow import ENTRY, EXIT, CFG, facts, get_cfg
from ..mutant import Mutant
from ..report import Report
from .common import find_node, indent_of, rule

PROP = "C12"
READY = False
TECHNIQUE = (
    "path counting and finite path enumeration (nullness of lookup results, registry-miss and unverified-id marks, membership "
    "correlation, link-text taint, empty-string propagation; conditional expressions and hoisted flags are branches; private "
    "helpers are summarised or inlined) over the CFGs of the Sphinx link handlers, the reference resolver and the slug "
    "uniquifier; flow-sensitive role/kind inference (from/to docname, '#'-part, percent-decoding, letter case) at registry "
    "look-ups and Sphinx API calls; writer/reader attribute agreement of 'myst' pending_xref nodes"
)

META = {
    "explanation": (
        "Nine rule families over the syntax trees/CFGs of mdit_to_docutils/sphinx_.py, base.py (render_link, slug registry), "
        "transforms.py (ResolveAnchorIds) and sphinx_ext/myst_refs.py. "
        "R1 classification: in SphinxRenderer.render_link_unknown/project/path and the dispatcher DocutilsRenderer.render_link "
        "(also when it dispatches through a class-level table of handler names with getattr) every normal path hands the link "
        "to exactly one sink - one freshly constructed pending_xref/download_reference given to _process_wrap_node, or one "
        "delegation to another render_link_* handler; private helpers are summarised; _process_wrap_node attaches the wrap "
        "node once, the inner node once, and renders the token's children beneath the inner node exactly when the text is "
        "explicit; a wrap node may also be a plain docutils node constructed in the call (a given-up link that keeps its "
        "text); every download_reference (local non-document file) is only created under a regular-file test (is_file/isfile, "
        "followed through locals, the guards of their bindings and predicate helpers) - an existence test alone or no test "
        "is a violation (Sphinx's download collector would answer with a non-myst warning). "
        "R2 resolver totality: in MystReferenceResolver.run every pending_xref with reftype 'myst' is replaced exactly once "
        "on every path (helpers summarised, delegates such as resolve_myst_ref_doc judged per exit). "
        "R3 exactly one warning: a finite path enumeration with an abstract state - nullness of 'may answer None' lookups, "
        "marks for registry misses (env.all_docs, the myst_slugs mapping) and for a *requested* fragment "
        "(node['reftargetid']) that reaches make_refnode as target id without having been found in a registry, remembered "
        "membership tests, hoisted boolean flags, conditional-expression assignments as branches, taint of the link-text "
        "subtree, constant propagation of the empty string into node constructors - shows that resolver paths on which "
        "resolution failed pass exactly one XREF_MISSING warning, all other paths none, that the replacement contains the "
        "original text subtree unless the implicit-text branch was taken, that no path puts the bare copy of the link's "
        "text placeholder (node[0], empty for a link written without text) in the link's place without the code having "
        "inspected or filled it (directly or in a helper that tests/extends its children) unless the explicit-text branch "
        "was taken, and that no path inserts a reference whose only "
        "text is the constant \"\". Helpers that warn are summarised (uniform count) or inlined with the caller's facts "
        "(two levels). Each XREF_MISSING log_warning interpolates its own target. log_warning itself leaves without emitting "
        "only after a nitpick_ignore / nitpick_ignore_regex match (followed through flags and one helper level), and the "
        "patterns of nitpick_ignore_regex entries are applied to the whole type / target (re.fullmatch, the operations found "
        "in the installed Sphinx ReferencesResolver source are the oracle). In the renderer a failed lookup that gives up to "
        "render_link_url - path2doc answered None, the lookup (relfn2path/path2doc) raised inside a try whose handler is "
        "entered, a regular-file test was false, or the destination contains a character no path can contain (NUL) - passes "
        "exactly one XREF_MISSING warning (giving up = delegation to render_link_url or a text-only wrap node) and paths "
        "that create a reference pass none; after giving a link up to render_link_url (which renders only the link's own "
        "child tokens) the handler inspects the children of the node that was appended (self.current_node[-1]) and fills it "
        "on the empty branch, directly or in a helper. "
        "R4 roles: at every make_refnode / docname_join / Domain.resolve_(any_)xref call the 'from' slot derives from refdoc "
        "(or the current docname) and the 'to'/'target' slot from reftarget or a registry docname, traced through locals, "
        "tuple unpacking and parameters over the call graph; a docname computed by hand (posixpath/os.path join + normpath "
        "instead of sphinx.util.docname_join) must strip or test a leading '/' of the target (root-relative destinations); "
        "the refdoc a writer stores is the current docname; the target handed to docname_join has its '#fragment' split off "
        "(KNOWN finding: it has not - `[](../sub/t#heading)`). "
        "R5 writer/reader agreement: every attribute the resolver *subscripts* on a 'myst' pending_xref (not .get, not under "
        "a statement- or expression-level `'k' in node` guard), split by the refdomain == 'doc' context, is set by every "
        "constructor call with the matching refdomain (keyword dict literals expanded); for refdomain='doc' every binding of "
        "reftarget that can reach the constructor (falsy constants are excluded when a truthiness test of the name dominates "
        "it; a, b = x, y is read element-wise) comes out of path2doc, and reftargetid is the part after '#' (split / partition / star-target idioms, NamedTuple- or "
        "tuple-returning split helpers followed); relfn2path receives the part before '#' and the current docname; a non-doc "
        "reference keeps the whole destination (also when it is put together again from its parts); every href-derived "
        "value that reaches reftarget / reftargetid / relfn2path has been completely percent-decoded (urllib.parse.unquote; "
        "markdown-it's display helper normalizeLinkText leaves reserved characters encoded and counts as partial) - traced "
        "flow-sensitively and through the module's private helpers with parameter binding and element-wise tuple results - "
        "and the destination is split at '#' while still encoded, so that a decoded '%23' of a file name is not taken for "
        "the separator. "
        "R6 scheme removal: 'path:' / 'project:' are removed from a destination by an exact prefix removal (slice offset = "
        "length of the prefix tested by the guarding startswith(), or removeprefix); a character-set strip containing name "
        "characters is a violation. "
        "R7 local '#' table: the table of document-local targets keyed by docutils names that ResolveAnchorIds consults before handing a '#name' link "
        "to project-wide resolution - also when it is built in a helper or a dict comprehension - is filled only under a "
        "truthy document.nametypes value (explicit targets), as Sphinx's StandardDomain.process_doc does. "
        "R8 slug registry: every key stored into the mapping saved as env.metadata[doc]['myst_slugs'] was tested absent from "
        "that mapping - the uniquifier (compute_unique_slug, helpers followed) is handed the registry and every value it "
        "returns is, on every path, a name for which `name not in registry` was the last decided membership fact - so no "
        "heading's (slug -> section id, title) entry is overwritten. "
        "The resolver reads that registry through the same access path below the environment as the renderer saved it, and "
        "the table saved in the environment is the same object as document.myst_slugs (not a copy - the later title refresh "
        "goes through document.myst_slugs) unless a later writer stores into the environment's table directly, it "
        "accumulates (the entries an earlier parse of the same document saved are merged in before the "
        "store, or the saved table is updated in place), and "
        "the element of the entry that the resolver passes to make_refnode as target id is read from the section node's "
        "assigned ids (node['ids'] / nameids), not recomputed from the heading text (make_id, slug functions); the title "
        "element is stored back from the tree (clean_astext) by code that runs after Sphinx's i18n Locale transform (a "
        "Transform whose default_priority is above Locale's, read from the installed sphinx source), so that translated "
        "builds show the translated title. "
        "R10 rewrite scope: a markdown-it env entry that the Sphinx link handlers read to rewrite destinations "
        "('relative-docs', set by the include mock around its nested render) is put back to its saved value (or popped, "
        "directly or by a restoring helper) on every normal and exceptional path after it was set, so that links after the "
        "include are not rewritten; the rewritten destination is made relative (os.path.relpath) to the directory of the "
        "document being built (env.docname via doc2path), the one relfn2path resolves it against - not to a directory kept "
        "in the env entry or the source root. "
        "R9 label keys: keys looked up in the std domain's labels / anonlabels are lower-cased on every flow "
        "(flow-sensitive, through parameters, their defaults and all call sites); a label lookup returns None only on paths "
        "that consulted anonlabels, the complete registry (labels holds only the labels that have a title or caption)."
    ),
    "not_decided": (
        "URI correctness as a value (make_refnode/get_relative_uri, relfn2path, path2doc and docname_join are Sphinx functions "
        "evaluated at run time); which registry entry a given name resolves to and the priority among several matches; slug "
        "values themselves (C10); the behaviour of other domains' resolve_any_xref and of intersphinx inventories; the effect "
        "of the relative-docs include option on destinations; the wording of renderer-side warnings; state kept across "
        "builds other than the suppression paths of log_warning (C15); an unguarded constant slice of a destination is "
        "listed, not judged (R6); whether the place the slug registry is kept in is merged from parallel readers and purged "
        "on re-reads (C15: only the agreement of writer and reader location is decided here); whether a library call can raise on a given destination (C01) - R3 only requires the "
        "warning on the paths where the code already treats the lookup as failed"
    ),
    "trusted_base": [
        "CPython ast",
        "engine CFG (flow.py) and call graph (callgraph.py, used for parameter kinds in R4/R8/R9)",
        "Sphinx API roles: make_refnode(builder, fromdocname, todocname, targetid, child), docname_join(basedocname, docname), "
        "Domain.resolve_any_xref(env, fromdocname, builder, target, node, contnode), Domain.resolve_xref(env, fromdocname, builder, typ, target, node, contnode), "
        "BuildEnvironment.path2doc returns None for a non-source file, relfn2path(filename, docname)",
        "Sphinx stores std-domain label names lower-cased (docutils-normalised names) and skips non-explicit names in StandardDomain.process_doc",
        "sphinx/transforms/post_transforms/__init__.py as installed (parsed, not imported): regex operations applied to nitpick_ignore_regex entries",
        "sphinx.util.docname_join treats a target with a leading '/' as relative to the source root",
        "markdown-it's normalizeLink percent-encodes hrefs; normalizeLinkText decodes only what is safe to display; urllib.parse.unquote decodes completely",
        "sphinx/transforms/i18n.py as installed: Locale.default_priority; StandardDomain keeps every label in anonlabels and only titled ones in labels",
        "tables in the module: NULLABLE_EXTERNALS, RAISING_LOOKUPS, IMPOSSIBLE_PATH_CHARS, NODE_CONSUMERS, FILE_TESTS / EXIST_TESTS, ROLE_SITES",
    ],
    "assumptions": [
        "docutils Node objects are always truthy (so `not newnode` means `newnode is None`)",
        "third-party domains' resolve_any_xref/resolve_xref do not replace the pending node themselves",
        "env.docname is the document being resolved while the post-transform runs",
        "a 'may answer None' lookup that answers is a real (truthy) answer",
        "the nitpick_ignore configuration is recognised by its attribute names (nitpick_ignore, nitpick_ignore_regex)",
    ],
}

RESOLVER = "sphinx_ext.myst_refs:MystReferenceResolver"
SPHINX_R = "mdit_to_docutils.sphinx_:SphinxRenderer"
BASE_R = "mdit_to_docutils.base:DocutilsRenderer"

# external lookups that answer "nothing" with None (one reason each; shape = attribute call of that name)
NULLABLE_EXTERNALS = {
    "path2doc": "sphinx BuildEnvironment.path2doc / Project.path2doc return None when the file is not a source document",
}
# callables that receive the pending node but (by their Sphinx/typing contract) never replace it
NODE_CONSUMERS = {
    "resolve_any_xref": "Domain.resolve_any_xref returns candidate nodes, the caller replaces",
    "resolve_xref": "Domain.resolve_xref returns a node, the caller replaces",
    "cast": "typing.cast",
    "isinstance": "builtin",
    "len": "builtin",
}
# characters that no path / docname can contain: a destination with one of them "cannot be resolved" by construction
IMPOSSIBLE_PATH_CHARS = {"\x00"}
# external lookups that answer "this cannot be a path" with an exception (one reason each)
RAISING_LOOKUPS = {"relfn2path": "BuildEnvironment.relfn2path -> Path.resolve() raises ValueError on an embedded NUL"}
MAX_PATHS = 20000


# ---------------------------------------------------------------------------
# small AST helpers


def header_exprs(st) -> list[ast.AST]:
    """The expressions evaluated at the CFG node ``st`` itself (not in its body)."""
    if isinstance(st, (ast.If, ast.While)):
        return [st.test]
    if isinstance(st, ast.For):
        return [st.iter]
    if isinstance(st, ast.With):
        return [i.context_expr for i in st.items]
    if isinstance(st, (ast.Try, ast.FunctionDef, ast.AsyncFunctionDef, ast.ClassDef)):
        return []
    if isinstance(st, ast.Match):
        return [st.subject]
    if isinstance(st, ast.AST):
        return [st]
    return []


def node_calls(st) -> list[ast.Call]:
    out = []
    for e in header_exprs(st):
        for n in ast.walk(e):
            if isinstance(n, ast.Call):
                out.append(n)
    out.sort(key=lambda c: (c.lineno, c.col_offset))
    return out


def owner_class(corpus: Corpus, fi: FunctionInfo):
    f = fi
    while f is not None and f.cls is None:
        f = f.parent_func
    return f.cls if f is not None else None


def self_callee(corpus: Corpus, fi: FunctionInfo, call: ast.Call) -> FunctionInfo | None:
    """Target of ``self.m(...)`` resolved in the class of ``fi`` (package-internal MRO)."""
    f = call.func
    if isinstance(f, ast.Attribute) and isinstance(f.value, ast.Name) and f.value.id in ("self", "cls"):
        ci = owner_class(corpus, fi)
        if ci is not None:
            return corpus.lookup_method(ci, f.attr)
        return None
    # private helpers that are not methods: module-level functions (also imported from another package module)
    # and `Class.method` of a class of this module
    if isinstance(f, ast.Name):
        o = fi
        while o is not None:
            if f.id in o.params or assignments_to(o, f.id):
                return None  # a local callable
            o = o.parent_func
        if f.id in fi.module.functions:
            t = fi.module.functions[f.id]
            return t if t.cls is None and t.parent_func is None else None
        full = fi.module.resolve(f.id)
        if full.startswith("myst_parser."):
            return corpus.find_function(full)
        return None
    if isinstance(f, ast.Attribute) and isinstance(f.value, ast.Name) and f.value.id in fi.module.classes:
        return fi.module.classes[f.value.id].methods.get(f.attr)
    return None


def self_call_name(call: ast.Call) -> str | None:
    f = call.func
    if isinstance(f, ast.Attribute) and isinstance(f.value, ast.Name) and f.value.id == "self":
        return f.attr
    return None


def param_of_arg(callee: FunctionInfo, call: ast.Call, var: str) -> str | None:
    """Name of the callee parameter that receives the bare name ``var`` at this call (None if not passed)."""
    params = callee.params
    shift = 1 if params and params[0] in ("self", "cls") else 0
    for i, a in enumerate(call.args):
        if isinstance(a, ast.Starred):
            return None
        if isinstance(a, ast.Name) and a.id == var and i + shift < len(params):
            return params[i + shift]
    for kw in call.keywords:
        if kw.arg and isinstance(kw.value, ast.Name) and kw.value.id == var:
            if kw.arg in params:
                return kw.arg
            if callee.node.args.kwarg is not None:
                return callee.node.args.kwarg.arg  # swallowed by **kwargs
    return None


def param_of_arg_expr(callee: FunctionInfo, call: ast.Call, param: str) -> ast.expr | None:
    """The argument expression a call passes for ``param`` (None when it is not passed)."""
    params = callee.params
    if param not in params:
        return None
    shift = 1 if params and params[0] in ("self", "cls") else 0
    i = params.index(param) - shift
    if 0 <= i < len(call.args) and not any(isinstance(a, ast.Starred) for a in call.args[: i + 1]):
        return call.args[i]
    for kw in call.keywords:
        if kw.arg == param:
            return kw.value
    return None


def call_arg(call: ast.Call, idx: int, name: str | None) -> ast.expr | None:
    if any(isinstance(a, ast.Starred) for a in call.args[: idx + 1]):
        raise Unsupported(f"starred arguments at `{short(call, 60)}`")
    if len(call.args) > idx:
        return call.args[idx]
    if name:
        for kw in call.keywords:
            if kw.arg == name:
                return kw.value
    return None


def is_xref_missing(e: ast.AST | None, fi: FunctionInfo) -> bool:
    d = dotted(e) if e is not None else None
    if not d or not d.endswith(".XREF_MISSING"):
        return False
    return fi.module.resolve(d.rsplit(".", 1)[0]).endswith("warnings_.MystWarnings")


def xref_missing_warning(call: ast.Call, fi: FunctionInfo) -> bool:
    """A warning emission (log_warning / create_warning) carrying MystWarnings.XREF_MISSING."""
    f = call.func
    name = f.attr if isinstance(f, ast.Attribute) else (f.id if isinstance(f, ast.Name) else "")
    if name not in ("log_warning", "create_warning"):
        return False
    return any(is_xref_missing(a, fi) for a in list(call.args) + [k.value for k in call.keywords])


def assignments_to(fi: FunctionInfo, name: str) -> list[tuple[ast.stmt, ast.expr, int | str | None]]:
    """(stmt, value, position) for every binding of ``name`` in ``fi``; position is the index in a tuple target
    ("*" for a starred element), None for a plain target."""
    out = []
    for n in fi.local_nodes():
        if isinstance(n, ast.Assign):
            for t in n.targets:
                if isinstance(t, ast.Name) and t.id == name:
                    out.append((n, n.value, None))
                elif isinstance(t, (ast.Tuple, ast.List)):
                    for i, el in enumerate(t.elts):
                        if isinstance(el, ast.Name) and el.id == name:
                            out.append((n, n.value, i))
                        elif isinstance(el, ast.Starred) and isinstance(el.value, ast.Name) and el.value.id == name:
                            out.append((n, n.value, "*"))
        elif isinstance(n, ast.AnnAssign) and isinstance(n.target, ast.Name) and n.target.id == name and n.value is not None:
            out.append((n, n.value, None))
        elif isinstance(n, ast.AugAssign) and isinstance(n.target, ast.Name) and n.target.id == name:
            out.append((n, n.value, None))
        elif isinstance(n, (ast.For, ast.comprehension)) and any(isinstance(x, ast.Name) and x.id == name for x in ast.walk(n.target)):
            out.append((n if isinstance(n, ast.stmt) else None, n.iter, "iter"))
        elif isinstance(n, ast.NamedExpr) and isinstance(n.target, ast.Name) and n.target.id == name:
            out.append((None, n.value, None))
        elif isinstance(n, ast.withitem) and n.optional_vars is not None and any(isinstance(x, ast.Name) and x.id == name for x in ast.walk(n.optional_vars)):
            out.append((None, n.context_expr, "with"))
    return out


def expr_guards(node: ast.AST) -> list[tuple[ast.expr, bool]]:
    """Facts that hold whenever the sub-expression ``node`` is evaluated, contributed by the expressions it is
    nested in (up to its statement): conditional expressions, short-circuit and/or, comprehension filters and
    the test of the statement's own header when ``node`` sits in a later operand of it."""
    out: list[tuple[ast.expr, bool]] = []
    child = node
    p = parent(child)
    while p is not None and not isinstance(child, ast.stmt):
        if isinstance(p, ast.IfExp):
            if child is p.body:
                out.extend(facts(p.test, True))
            elif child is p.orelse:
                out.extend(facts(p.test, False))
        elif isinstance(p, ast.BoolOp) and child in p.values:
            idx = p.values.index(child)
            for v in p.values[:idx]:
                out.extend(facts(v, isinstance(p.op, ast.And)))
        elif isinstance(p, (ast.ListComp, ast.SetComp, ast.GeneratorExp, ast.DictComp)):
            if child is getattr(p, "elt", None) or child is getattr(p, "key", None) or child is getattr(p, "value", None):
                for g in p.generators:
                    for c in g.ifs:
                        out.extend(facts(c, True))
        elif isinstance(p, ast.comprehension) and child in p.ifs:
            for c in p.ifs[: p.ifs.index(child)]:
                out.extend(facts(c, True))
        child = p
        p = parent(child)
    return out


def all_guards(cfg: CFG, node: ast.AST) -> list[tuple[ast.expr, bool]]:
    """Statement-level dominating facts plus expression-level ones for a sub-expression."""
    return list(cfg.guards(cfg.stmt_of(node))) + expr_guards(node)


def describe(cfg: CFG, trail) -> list[str]:
    out = []
    m = cfg.fi.module
    for n in trail:
        if isinstance(n, tuple) and n[0] in ("T", "F") and isinstance(n[1], (ast.If, ast.While)):
            out.append(f"{m.site(n[1])}: `{short(n[1].test, 70)}` is {'true' if n[0] == 'T' else 'false'}")
        elif isinstance(n, tuple) and n[0] == "H":
            out.append(f"{m.site(n[1])}: handler `except {unparse(n[1].type) if n[1].type else ''}` entered")
    return out


# ---------------------------------------------------------------------------
# the resolver's region: loop over pending_xref nodes filtered on reftype == "myst"


class ResolverShape:
    def __init__(self, corpus: Corpus):
        self.c = corpus
        self.cls = corpus.cls(RESOLVER)
        self.run = corpus.func(RESOLVER + ".run")
        fi = self.run
        loops = [n for n in fi.local_nodes() if isinstance(n, ast.For) and "pending_xref" in unparse(n.iter)]
        if len(loops) != 1 or not isinstance(loops[0].target, ast.Name):
            raise Unsupported("MystReferenceResolver.run: expected one `for <node> in findall(...)(pending_xref)` loop")
        self.loop = loops[0]
        self.var = self.loop.target.id
        self.cfg = get_cfg(fi)
        # the reftype filter
        start = None
        for n in fi.local_nodes():
            if not isinstance(n, ast.If):
                continue
            t = n.test
            if isinstance(t, ast.Compare) and len(t.ops) == 1 and self._reads(t.left, "reftype") and isinstance(t.comparators[0], ast.Constant) and t.comparators[0].value == "myst":
                if isinstance(t.ops[0], ast.NotEq) and n.body and isinstance(n.body[0], ast.Continue):
                    start = ("F", n)
                elif isinstance(t.ops[0], ast.Eq):
                    start = ("T", n)
        if start is None:
            raise Unsupported("MystReferenceResolver.run: reftype == 'myst' filter not found")
        self.start = start

    def _reads(self, e: ast.AST, key: str) -> bool:
        return isinstance(e, ast.Subscript) and isinstance(e.value, ast.Name) and e.value.id == self.var and isinstance(e.slice, ast.Constant) and e.slice.value == key

    def region_stops(self) -> list:
        """Nodes that end one iteration for a myst node: predecessors of the loop header inside the body, and of EXIT."""
        reach = self.cfg.reachable_from(self.start)
        stops = []
        for p in self.cfg.pred.get(self.loop, []) + self.cfg.pred.get(EXIT, []):
            if p in reach and p is not self.loop and p not in stops and self._inside_loop(p):
                stops.append(p)
        return stops

    def _inside_loop(self, n) -> bool:
        st = n[1] if isinstance(n, tuple) else n
        if isinstance(st, ast.ExceptHandler):
            return True
        x = st
        while x is not None:
            if x is self.loop:
                return True
            x = parent(x)
        return False


def _shape(corpus: Corpus) -> ResolverShape:
    return corpus.cache("c12-shape", lambda: ResolverShape(corpus))


# ---------------------------------------------------------------------------
# replacement counting (R2)


class ReplaceCounter:
    """How often is the pending node held in ``var`` replaced along paths of ``fi``?"""

    def __init__(self, corpus: Corpus):
        self.c = corpus
        self.memo: dict[tuple[str, str], set[int]] = {}
        self.active: set[tuple[str, str]] = set()

    def direct(self, call: ast.Call, var: str) -> bool:
        f = call.func
        if isinstance(f, ast.Attribute) and f.attr == "replace_self" and isinstance(f.value, ast.Name) and f.value.id == var:
            return True
        if isinstance(f, ast.Attribute) and f.attr == "replace" and unparse(f.value) == f"{var}.parent" and call.args and isinstance(call.args[0], ast.Name) and call.args[0].id == var:
            return True
        return False

    def check_aliases(self, fi: FunctionInfo, var: str) -> None:
        for n in fi.local_nodes():
            if isinstance(n, (ast.Assign, ast.AnnAssign)) and isinstance(n.value, ast.Name) and n.value.id == var:
                raise Unsupported(f"{fi.qualname}: the pending node `{var}` is aliased (`{short(n, 50)}`)")

    def weight(self, fi: FunctionInfo, var: str):
        cfg = get_cfg(fi)

        def w(n) -> int:
            if not isinstance(n, ast.AST):
                return 0
            total = 0
            for call in node_calls(n):
                k = 0
                if self.direct(call, var):
                    k = 1
                else:
                    callee = self_callee(self.c, fi, call)
                    passed = any(isinstance(a, ast.Name) and a.id == var for a in list(call.args) + [kw.value for kw in call.keywords if kw.arg is not None])
                    if callee is not None:
                        p = param_of_arg(callee, call, var)
                        if p is not None:
                            s = self.summary(callee, p)
                            k = max(s) if s else 0
                        elif passed:
                            raise Unsupported(f"{fi.qualname}: cannot match `{var}` to a parameter of {callee.qualname}")
                    elif passed:
                        nm = call.func.attr if isinstance(call.func, ast.Attribute) else dotted(call.func)
                        if nm not in NODE_CONSUMERS:
                            raise Unsupported(f"{fi.qualname}: the pending node is handed to `{short(call.func, 40)}`, which this rule cannot summarise")
                if k and any(isinstance(s, tuple) and s[0] == "H" for s in cfg.succ.get(n, [])):
                    raise Unsupported(f"{fi.qualname}: a replacement of the pending node sits inside a try body (`{short(call, 50)}`)")
                total += k
            return total

        return w

    def summary(self, fi: FunctionInfo, param: str) -> set[int]:
        key = (fi.fq, param)
        if key in self.memo:
            return self.memo[key]
        if key in self.active:
            raise Unsupported(f"recursive helper {fi.qualname}")
        self.active.add(key)
        try:
            self.check_aliases(fi, param)
            cfg = get_cfg(fi)
            res = cfg.counts(ENTRY, [EXIT], self.weight(fi, param)).get(EXIT, {0})
        finally:
            self.active.discard(key)
        self.memo[key] = set(res)
        return self.memo[key]


def _stop_key(cfg: CFG, stop) -> str:
    st = stop[1] if isinstance(stop, tuple) else stop
    if isinstance(st, ast.ExceptHandler):
        return f"handler {unparse(st.type) if st.type else ''}"
    if isinstance(stop, tuple):
        return f"{'true' if stop[0] == 'T' else 'false'} edge of `{short(getattr(st, 'test', st), 50)}`"
    gs = sorted({("" if pol else "not ") + short(t, 50) for t, pol in cfg.guards(stop)})
    return f"`{short(st, 50)}` under [{'; '.join(gs)}]"


@rule("C12.R2")
def r2_resolver_totality(corpus: Corpus, rep: Report, tier: str):
    rep.rule("C12.R2", "every 'myst' pending_xref is replaced exactly once on every path of MystReferenceResolver.run (helpers summarised, delegates judged per exit)")
    sh = _shape(corpus)
    rc = ReplaceCounter(corpus)
    rep.saw_function(sh.run.fq)
    rc.check_aliases(sh.run, sh.var)
    judged: list[tuple[FunctionInfo, str, object, list]] = [(sh.run, sh.var, sh.start, sh.region_stops())]
    # delegates: self-methods that receive the node and replace it themselves
    for n in sh.cfg.reachable_from(sh.start):
        if not isinstance(n, ast.AST) or not sh._inside_loop(n):
            continue
        for call in node_calls(n):
            callee = self_callee(corpus, sh.run, call)
            if callee is None:
                continue
            p = param_of_arg(callee, call, sh.var)
            rep.saw_call(sh.run.module.site(call))
            if p is None:
                continue
            s = rc.summary(callee, p)
            if s != {0}:
                cfgc = get_cfg(callee)
                stops = [x for x in cfgc.pred.get(EXIT, [])]
                judged.append((callee, p, ENTRY, stops))
            else:
                rep.ok("C12.R2", f"{callee.fq}|helper never replaces `{p}`", callee.site(), "summary {0}")
    for fi, var, start, stops in judged:
        rep.saw_function(fi.fq)
        cfg = get_cfg(fi)
        res = cfg.counts(start, stops, rc.weight(fi, var))
        for stop in stops:
            k = f"{fi.fq}|exit {_stop_key(cfg, stop)}"
            site = fi.module.site(stop[1] if isinstance(stop, tuple) else stop)
            got = res.get(stop)
            if not got:
                continue  # not reachable from the start of the region
            if got == {1}:
                rep.ok("C12.R2", k, site, "replaced exactly once on every path to this exit")
            elif 0 in got:
                rep.violation("C12.R2", k, site, f"a path reaches this exit without replacing the 'myst' pending_xref `{var}` (counts {sorted(got)}): the node is left for Sphinx's own resolver, which does not know reftype 'myst'")
            else:
                rep.violation("C12.R2", k, site, f"the pending_xref `{var}` can be replaced twice on a path to this exit (counts {sorted(got)}): the second replace_self acts on a detached node")
    rep.expect_min("C12.R2", 4, "1 exit of the loop body in run + 2 exits of resolve_myst_ref_doc + the continue after the delegate + helper summaries")


# ---------------------------------------------------------------------------
# path enumeration with a small abstract state (R3)


class PState:
    __slots__ = ("nulls", "marks", "warns", "taint", "flags", "events", "trail", "empty", "hollow", "unver", "known", "alias", "ph")

    def __init__(self):
        self.nulls: dict[str, str] = {}
        self.marks: frozenset = frozenset()
        self.warns: tuple = ()
        self.taint: frozenset = frozenset()
        self.flags: frozenset = frozenset()
        self.events: tuple = ()
        self.trail: tuple = ()
        self.empty: frozenset = frozenset()  # names bound to the constant ""
        self.hollow: frozenset = frozenset()  # names bound to nodes built from empty text only
        self.ph: frozenset = frozenset()  # names holding (a wrapper of) a copy of the link's placeholder text node, maybe empty
        self.alias: dict = {}  # boolean flag name -> (test expression it was bound to, names the expression reads)
        self.known: frozenset = frozenset()  # membership tests already decided on this path: (text, truth, names)
        self.unver: frozenset = frozenset()  # names holding the *requested* target id (node["reftargetid"]), not a registry id

    def copy(self) -> "PState":
        s = PState()
        s.nulls = dict(self.nulls)
        s.marks, s.warns, s.taint, s.flags, s.events, s.trail = self.marks, self.warns, self.taint, self.flags, self.events, self.trail
        s.empty, s.hollow, s.unver, s.known = self.empty, self.hollow, self.unver, self.known
        s.alias = dict(self.alias)
        s.ph = self.ph
        return s


class Enumerator:
    """All paths start -> stops of one function over the abstract state:
    nullness of variables bound to 'may answer None' lookups (each None answer leaves a mark until a later
    lookup into the same variable succeeds), marks for registry-miss branches, taint of the link-text subtree,
    XREF_MISSING warning events and sink events."""

    def __init__(self, corpus: Corpus, fi: FunctionInfo, pending: str | None, sink_names: tuple[str, ...] = ()):
        self.c = corpus
        self.fi = fi
        self.cfg = get_cfg(fi)
        self.pv = pending
        self.sink_names = sink_names
        self.registry_vars = self._registry_vars()
        # names bound to a regular-file test (is_file / isfile)
        self.filetest_vars: set[str] = set()
        for n in fi.local_nodes():
            if isinstance(n, (ast.Assign, ast.AnnAssign)) and n.value is not None:
                tg = n.targets[0] if isinstance(n, ast.Assign) else n.target
                if isinstance(tg, ast.Name) and any(isinstance(x, ast.Call) and isinstance(x.func, ast.Attribute) and x.func.attr in FILE_TESTS for x in ast.walk(n.value)):
                    self.filetest_vars.add(tg.id)
        # names whose nullness is tracked: bound somewhere to None or to a 'may answer None' lookup
        self.null_tested: set[str] = set()
        for n in fi.local_nodes():
            if isinstance(n, (ast.Assign, ast.AnnAssign)) and n.value is not None:
                tg = n.targets[0] if isinstance(n, ast.Assign) else n.target
                v = n.value
                if isinstance(tg, ast.Name) and ((isinstance(v, ast.Constant) and v.value is None) or (isinstance(v, ast.Call) and self.is_attempt(v))):
                    self.null_tested.add(tg.id)

    # -- classification of expressions -----------------------------------------
    def _registry_vars(self) -> set[str]:
        out = set()
        for n in self.fi.local_nodes():
            if isinstance(n, (ast.Assign, ast.AnnAssign)) and n.value is not None:
                if any((isinstance(x, ast.Constant) and x.value == "myst_slugs") or (isinstance(x, ast.Attribute) and x.attr == "myst_slugs") for x in ast.walk(n.value)):
                    tg = n.targets[0] if isinstance(n, ast.Assign) else n.target
                    if isinstance(tg, ast.Name):
                        out.add(tg.id)
        return out

    def is_registry(self, e: ast.expr) -> bool:
        if isinstance(e, ast.Attribute) and e.attr == "all_docs":
            return True
        if isinstance(e, ast.Name) and e.id in self.registry_vars:
            return True
        return False

    def is_attempt(self, call: ast.Call) -> str | None:
        callee = self_callee(self.c, self.fi, call)
        if callee is not None and not callee.is_lambda:
            r = callee.node.returns
            if r is not None:
                parts = [p.strip() for p in unparse(r).strip("'\"").split("|")]
                if "None" in parts and len(parts) > 1:
                    return f"{callee.qualname} -> {unparse(r)}"
            return None
        f = call.func
        if isinstance(f, ast.Attribute) and f.attr in NULLABLE_EXTERNALS:
            return NULLABLE_EXTERNALS[f.attr]
        return None

    def tainted(self, e: ast.AST, st: PState) -> bool:
        pv = self.pv
        for n in ast.walk(e):
            if isinstance(n, ast.Name) and n.id in st.taint:
                return True
            if pv is None:
                continue
            if isinstance(n, ast.Subscript) and isinstance(n.value, ast.Name) and n.value.id == pv and isinstance(n.slice, ast.Constant) and n.slice.value == 0:
                return True
            if isinstance(n, ast.Attribute) and n.attr == "children" and isinstance(n.value, ast.Name) and n.value.id == pv:
                return True
            if isinstance(n, ast.Call) and any(isinstance(a, ast.Name) and a.id == pv for a in list(n.args) + [k.value for k in n.keywords]):
                return True
        return False

    def _defs_of(self, name: str) -> list[ast.expr]:
        return [v for _, v, pos in assignments_to(self.fi, name) if pos is None]

    def _is_last_appended(self, name: str) -> bool:
        """The name is bound to `self.current_node[-1]`: the node a delegate just appended."""
        defs = [v for _, v, pos in assignments_to(self.fi, name) if pos is None]
        return bool(defs) and all(isinstance(v, ast.Subscript) and (dotted(v.value) or "").endswith("current_node") and isinstance(v.slice, ast.UnaryOp) and isinstance(v.slice.op, ast.USub) and isinstance(v.slice.operand, ast.Constant) and v.slice.operand.value == 1 for v in defs)

    def _text_only_node(self, a: ast.expr) -> bool:
        """The expression is a plain docutils node (not a pending_xref / download_reference)."""
        vals = [a]
        if isinstance(a, ast.Name):
            vals = [v for _, v, pos in assignments_to(self.fi, a.id) if pos is None]
            if not vals:
                return False
        for v in vals:
            if not (isinstance(v, ast.Call) and self.fi.module.resolve(dotted(v.func) or "").startswith("docutils.nodes.")):
                return False
        return True

    @staticmethod
    def _in_handler(n: ast.AST) -> bool:
        x = parent(n)
        while x is not None and not isinstance(x, (ast.FunctionDef, ast.AsyncFunctionDef, ast.Lambda)):
            if isinstance(x, ast.ExceptHandler):
                return True
            x = parent(x)
        return False

    def is_request_id(self, e: ast.AST | None, st: PState) -> bool:
        """The fragment as the link *asked* for it (node["reftargetid"]), as opposed to an id out of a registry."""
        pv = self.pv
        if e is None or pv is None:
            return False
        if isinstance(e, ast.Name):
            return e.id in st.unver
        if isinstance(e, ast.Subscript) and isinstance(e.value, ast.Name) and e.value.id == pv and isinstance(e.slice, ast.Constant) and e.slice.value == "reftargetid":
            return True
        if isinstance(e, ast.Call) and isinstance(e.func, ast.Attribute) and e.func.attr == "get" and isinstance(e.func.value, ast.Name) and e.func.value.id == pv and e.args and isinstance(e.args[0], ast.Constant) and e.args[0].value == "reftargetid":
            return True
        if isinstance(e, ast.Call) and dotted(e.func) in ("cast", "typing.cast", "t.cast", "str") and e.args:
            return self.is_request_id(e.args[-1], st)
        if isinstance(e, ast.BoolOp):
            return any(self.is_request_id(v, st) for v in e.values)
        if isinstance(e, ast.IfExp):
            return self.is_request_id(e.body, st) or self.is_request_id(e.orelse, st)
        return False

    def is_placeholder(self, e: ast.AST | None, st: PState) -> bool:
        """A copy of the link's text placeholder PV[0] (empty for a link written without text), or a name holding one."""
        pv = self.pv
        if e is None or pv is None:
            return False
        while isinstance(e, ast.Call) and dotted(e.func) in ("cast", "typing.cast", "t.cast") and len(e.args) == 2:
            e = e.args[1]
        if isinstance(e, ast.Name):
            return e.id in st.ph
        if isinstance(e, ast.Call) and isinstance(e.func, ast.Attribute) and e.func.attr in ("deepcopy", "copy") and not e.args:
            e = e.func.value
        return isinstance(e, ast.Subscript) and isinstance(e.value, ast.Name) and e.value.id == pv and isinstance(e.slice, ast.Constant) and e.slice.value == 0

    def is_hollow(self, e: ast.AST | None, st: PState) -> bool:
        """A node statically known to carry no text: built from the constant "" only (or wrapping such a node)."""
        if isinstance(e, ast.Name):
            return e.id in st.hollow
        if isinstance(e, ast.Call):
            full = self.fi.module.resolve(dotted(e.func) or "")
            if full.startswith("docutils.nodes.") and e.args and not any(isinstance(a, ast.Starred) for a in e.args):
                return all((isinstance(a, ast.Constant) and a.value == "") or (isinstance(a, ast.Name) and a.id in st.empty) for a in e.args)
            if full == "sphinx.util.nodes.make_refnode":
                child = e.args[4] if len(e.args) > 4 else next((k.value for k in e.keywords if k.arg == "child"), None)
                return self.is_hollow(child, st)
        return False

    @staticmethod
    def _membership(t: ast.expr):
        if isinstance(t, ast.Compare) and len(t.ops) == 1 and isinstance(t.ops[0], (ast.In, ast.NotIn)):
            text = f"{unparse(t.left)} in {unparse(t.comparators[0])}"
            names = frozenset(x.id for x in ast.walk(t) if isinstance(x, ast.Name))
            return text, names, isinstance(t.ops[0], ast.In)
        return None

    @staticmethod
    def _forget(s: PState, name: str) -> None:
        if any(name in k[2] for k in s.known):
            s.known = frozenset(k for k in s.known if name not in k[2])
        for a in [a for a, (_, names) in s.alias.items() if a == name or name in names]:
            del s.alias[a]

    @staticmethod
    def _subst(t: ast.expr, st: PState) -> ast.expr:
        """Replace hoisted boolean flags (`found = x in reg` ... `if found:`) by the test they stand for."""
        if not st.alias or not any(isinstance(x, ast.Name) and x.id in st.alias for x in ast.walk(t)):
            return t
        import copy

        class Sub(ast.NodeTransformer):
            def visit_Name(self, node):
                if node.id in st.alias and isinstance(node.ctx, ast.Load):
                    return copy.deepcopy(st.alias[node.id][0])
                return node

        return Sub().visit(copy.deepcopy(t))

    def eval_test(self, t: ast.expr, st: PState) -> set[str]:
        return self._eval(self._subst(t, st), st)

    def _eval(self, t: ast.expr, st: PState) -> set[str]:
        both = {"T", "F"}
        mem = self._membership(t)
        if mem is not None:
            for text, truth, _ in st.known:
                if text == mem[0]:
                    return {"T"} if truth == mem[2] else {"F"}
            return both
        if isinstance(t, ast.UnaryOp) and isinstance(t.op, ast.Not):
            r = self._eval(t.operand, st)
            return {"T" if x == "F" else "F" for x in r}
        if isinstance(t, ast.Name):
            v = st.nulls.get(t.id)
            if v is None:
                for text, truth, _ in st.known:
                    if text == f"bool:{t.id}":
                        return {"T"} if truth else {"F"}
            return {"F"} if v == "none" else ({"T"} if v == "some" else both)
        if isinstance(t, ast.Compare) and len(t.ops) == 1 and isinstance(t.left, ast.Name) and isinstance(t.comparators[0], ast.Constant) and t.comparators[0].value is None:
            v = st.nulls.get(t.left.id)
            if v is None:
                return both
            if isinstance(t.ops[0], ast.Is):
                return {"T"} if v == "none" else {"F"}
            if isinstance(t.ops[0], ast.IsNot):
                return {"F"} if v == "none" else {"T"}
            return both
        if isinstance(t, ast.Compare) and len(t.ops) == 1 and isinstance(t.ops[0], (ast.Eq, ast.NotEq)) and isinstance(t.left, ast.Name) and t.left.id in st.nulls and isinstance(t.comparators[0], ast.Constant) and not t.comparators[0].value and t.comparators[0].value is not None:
            # `x == ""` / `x == 0` on a lookup result: "some" stands for a real (truthy) answer, None is not equal to ""
            return {"F"} if isinstance(t.ops[0], ast.Eq) else {"T"}
        if isinstance(t, ast.BoolOp):
            rs = [self._eval(v, st) for v in t.values]
            if isinstance(t.op, ast.And):
                if any(r == {"F"} for r in rs):
                    return {"F"}
                if all(r == {"T"} for r in rs):
                    return {"T"}
            else:
                if any(r == {"T"} for r in rs):
                    return {"T"}
                if all(r == {"F"} for r in rs):
                    return {"F"}
        return both

    # -- transfer ------------------------------------------------------------------
    def branch_effects(self, st: PState, test: ast.expr, outcome: bool) -> PState:
        s = st
        test = self._subst(test, st)
        tested = {n.id for n in ast.walk(test) if isinstance(n, ast.Name)} & (s.hollow | s.empty | s.ph)
        if tested:
            # the code inspects the (possibly empty) text itself: emptiness is no longer a static fact
            s = s.copy()
            s.hollow = s.hollow - tested
            s.empty = s.empty - tested
            s.ph = s.ph - tested
        for e, pol in facts(test, outcome):
            if self.pv is None and isinstance(e, ast.Attribute) and e.attr == "children" and isinstance(e.value, ast.Name) and self._is_last_appended(e.value.id):
                s = s.copy()
                s.events = s.events + (("children-nonempty" if pol else "children-empty", test, e.value.id, False),)
            if isinstance(e, ast.Compare) and len(e.ops) == 1 and isinstance(e.left, ast.Call) and isinstance(e.comparators[0], ast.Constant) and e.comparators[0].value is None and isinstance(e.ops[0], (ast.Is, ast.IsNot)) and self.is_attempt(e.left):
                if pol == isinstance(e.ops[0], ast.Is):
                    s = s.copy()
                    s.marks = s.marks | {f"null:{short(e.left, 40)}"}  # the lookup answered None
            elif isinstance(e, ast.Call) and not pol and self.is_attempt(e):
                s = s.copy()
                s.marks = s.marks | {f"null:{short(e, 40)}"}
            if isinstance(e, ast.Name) and not any(k[0] == f"bool:{e.id}" for k in s.known):
                s = s.copy()
                s.known = s.known | {(f"bool:{e.id}", pol, frozenset({e.id}))}  # same unmodified name tested twice
            if not pol and self.pv is None:
                ft = None
                if isinstance(e, ast.Name) and e.id in self.filetest_vars:
                    ft = e.id
                elif isinstance(e, ast.Call) and isinstance(e.func, ast.Attribute) and e.func.attr in FILE_TESTS:
                    ft = unparse(e)
                if ft is not None:
                    s = s.copy()
                    s.marks = s.marks | {f"nofile:{ft}"}  # the destination does not name a regular file
            if pol and isinstance(e, ast.Compare) and len(e.ops) == 1 and isinstance(e.ops[0], ast.In) and isinstance(e.left, ast.Constant) and isinstance(e.left.value, str) and e.left.value and set(e.left.value) <= IMPOSSIBLE_PATH_CHARS:
                s = s.copy()
                s.marks = s.marks | {f"unusable:{unparse(e)}"}  # e.g. NUL: can never name a file or document
            mem = self._membership(e)
            if mem is not None and not any(k[0] == mem[0] for k in s.known):
                s = s.copy()
                s.known = s.known | {(mem[0], pol if mem[2] else not pol, mem[1])}
            if isinstance(e, ast.Name) and not pol and e.id in s.unver:
                s = s.copy()
                s.unver = s.unver - {e.id}  # a falsy requested id is "no id requested"
            # same unmodified name tested twice: remember the outcome of a nullness test
            nm, isnone = None, None
            if isinstance(e, ast.Name):
                nm, isnone = e.id, not pol
            elif isinstance(e, ast.Compare) and len(e.ops) == 1 and isinstance(e.left, ast.Name) and isinstance(e.comparators[0], ast.Constant) and e.comparators[0].value is None and isinstance(e.ops[0], (ast.Is, ast.IsNot)):
                nm, isnone = e.left.id, (pol if isinstance(e.ops[0], ast.Is) else not pol)
            if nm is not None and nm not in s.nulls and nm in self.null_tested:
                s = s.copy()
                s.nulls[nm] = "none" if isnone else "some"
            if isinstance(e, ast.Compare) and len(e.ops) == 1 and isinstance(e.ops[0], (ast.In, ast.NotIn)) and self.is_registry(e.comparators[0]):
                miss = pol if isinstance(e.ops[0], ast.NotIn) else not pol
                if miss:
                    s = s.copy()
                    s.marks = s.marks | {f"miss:{unparse(e.left)} not in {unparse(e.comparators[0])}"}
            if self.pv is not None:
                x = e
                if isinstance(x, ast.Call) and isinstance(x.func, ast.Attribute) and x.func.attr == "get" and x.args:
                    key = x.args[0]
                    recv = x.func.value
                elif isinstance(x, ast.Subscript):
                    key = x.slice
                    recv = x.value
                else:
                    continue
                if isinstance(recv, ast.Name) and recv.id == self.pv and isinstance(key, ast.Constant) and key.value == "refexplicit":
                    s = s.copy()
                    s.flags = s.flags | {"explicit" if pol else "implicit"}
        return s

    def _bind(self, s: PState, n, targets, val: ast.expr, depth: int = 0) -> list[PState]:
        """States after binding ``val`` to ``targets``; a conditional expression is a branch."""
        inner0 = val
        while isinstance(inner0, ast.Call) and dotted(inner0.func) in ("cast", "typing.cast", "t.cast") and len(inner0.args) == 2:
            inner0 = inner0.args[1]
        if isinstance(inner0, ast.IfExp) and depth < 4:
            res: list[PState] = []
            for oc in sorted(self.eval_test(inner0.test, s)):
                s2 = self.branch_effects(s.copy(), inner0.test, oc == "T")
                res += self._bind(s2.copy(), n, targets, inner0.body if oc == "T" else inner0.orelse, depth + 1)
            return res
        outs = [s]
        for tg in targets:
            for el in ast.walk(tg):
                if isinstance(el, ast.Name):
                    self._forget(s, el.id)
        tval = self.tainted(val, s)
        for tg in targets:
            if isinstance(tg, ast.Name):
                s.taint = (s.taint | {tg.id}) if tval else (s.taint - {tg.id})
                s.hollow = (s.hollow | {tg.id}) if self.is_hollow(val, s) else (s.hollow - {tg.id})
                s.ph = (s.ph | {tg.id}) if self.is_placeholder(val, s) else (s.ph - {tg.id})
                if self.is_request_id(val, s):
                    s.unver = s.unver | {tg.id}
                    s.events = s.events + (("unver-assign", n, False, False),)
                else:
                    s.unver = s.unver - {tg.id}
                s.empty = (s.empty | {tg.id}) if ((isinstance(val, ast.Constant) and val.value == "") or (isinstance(val, ast.Name) and val.id in s.empty)) else (s.empty - {tg.id})
                inner = val
                while isinstance(inner, ast.Call) and dotted(inner.func) in ("cast", "typing.cast", "t.cast", "bool") and len(inner.args) in (1, 2):
                    inner = inner.args[-1]
                if isinstance(inner, (ast.Compare, ast.BoolOp)) or (isinstance(inner, ast.UnaryOp) and isinstance(inner.op, ast.Not)):
                    rd = frozenset(x.id for x in ast.walk(inner) if isinstance(x, ast.Name))
                    if tg.id not in rd and not any(isinstance(x, (ast.Call, ast.NamedExpr)) for x in ast.walk(inner)):
                        s.alias[tg.id] = (inner, rd)
                if isinstance(inner, ast.Constant) and inner.value is None:
                    s.nulls[tg.id] = "none"
                    if tg.id in self.null_tested and self._in_handler(n):
                        s.marks = s.marks | {f"null:{tg.id}"}  # the lookup raised: a failed lookup
                elif isinstance(inner, ast.Call) and self.is_attempt(inner):
                    a, b = s, s.copy()
                    a.nulls[tg.id] = "none"
                    a.marks = a.marks | {f"null:{tg.id}"}
                    b.nulls[tg.id] = "some"
                    b.marks = b.marks - {f"null:{tg.id}"}
                    outs = [a, b]
                elif isinstance(inner, ast.Name) and inner.id == tg.id:
                    pass  # x = x
                elif isinstance(inner, ast.Name) and inner.id in s.nulls:
                    s.nulls[tg.id] = s.nulls[inner.id]
                else:
                    s.nulls.pop(tg.id, None)
            elif isinstance(tg, (ast.Tuple, ast.List)):
                pairwise = isinstance(val, (ast.Tuple, ast.List)) and len(val.elts) == len(tg.elts) and not any(isinstance(x, ast.Starred) for x in list(val.elts) + list(tg.elts))
                before = s.copy()
                for el in ast.walk(tg):
                    if isinstance(el, ast.Name):
                        s.nulls.pop(el.id, None)
                        s.taint = (s.taint | {el.id}) if tval else (s.taint - {el.id})
                        s.empty = s.empty - {el.id}
                        s.hollow = s.hollow - {el.id}
                        s.unver = s.unver - {el.id}
                if pairwise:
                    for el, v in zip(tg.elts, val.elts):
                        if isinstance(el, ast.Name) and isinstance(v, ast.Constant) and v.value is None:
                            s.nulls[el.id] = "none"
                            if el.id in self.null_tested and self._in_handler(n):
                                s.marks = s.marks | {f"null:{el.id}"}  # the lookup raised: a failed lookup
                if pairwise:
                    for el, v in zip(tg.elts, val.elts):
                        if isinstance(el, ast.Name) and self.is_request_id(v, before):
                            s.unver = s.unver | {el.id}
                            s.events = s.events + (("unver-assign", n, False, False),)
        return outs

    def _inline_helper(self, s: PState, n, call: ast.Call, callee: FunctionInfo) -> list[PState]:
        """A private helper that warns on some of its paths only (e.g. an extracted lookup-or-warn block):
        enumerate the helper's own paths with the caller's facts about its arguments and continue the caller's
        path once per distinct outcome (failure marks, number of warnings, provenance of the returned values)."""
        params = callee.params
        shift = 1 if params and params[0] in ("self", "cls") else 0
        init = PState()
        bound: dict[str, ast.expr] = {}
        for i, a in enumerate(call.args):
            if isinstance(a, ast.Starred) or i + shift >= len(params):
                raise Unsupported(f"{self.fi.qualname}: cannot bind the arguments of {callee.qualname}")
            bound[params[i + shift]] = a
        for kw in call.keywords:
            if kw.arg is None or kw.arg not in params:
                raise Unsupported(f"{self.fi.qualname}: cannot bind the arguments of {callee.qualname}")
            bound[kw.arg] = kw.value
        pv = None
        for pname, a in bound.items():
            if self.pv is not None and isinstance(a, ast.Name) and a.id == self.pv:
                pv = pname
            if self.is_request_id(a, s):
                init.unver = init.unver | {pname}
            if isinstance(a, ast.Name) and a.id in s.empty:
                init.empty = init.empty | {pname}
            if isinstance(a, ast.Name) and a.id in s.nulls:
                init.nulls[pname] = s.nulls[a.id]
        sub_en = Enumerator(self.c, callee, pv, self.sink_names)
        sub_en.depth = _depth_of(self) + 1
        # registries handed in as arguments stay registries
        for pname, a in bound.items():
            if self.is_registry(a):
                sub_en.registry_vars.add(pname)
        ccfg = sub_en.cfg
        stops = list(ccfg.pred.get(EXIT, []))
        res = sub_en.paths(ENTRY, stops, init)
        if not res:
            raise Unsupported(f"no path through helper {callee.qualname}")
        outcomes: dict[tuple, PState] = {}
        for stop, cs in res:
            if any(e[0] == "replace" for e in cs.events):
                raise Unsupported(f"helper {callee.qualname} both warns conditionally and replaces the node")
            ret = stop.value if isinstance(stop, ast.Return) else None
            if isinstance(ret, ast.Tuple):
                flags = tuple((sub_en.is_request_id(e, cs), (isinstance(e, ast.Constant) and e.value == "") or (isinstance(e, ast.Name) and e.id in cs.empty)) for e in ret.elts)
            elif ret is not None:
                flags = ((sub_en.is_request_id(ret, cs), False),)
            else:
                flags = ()
            outcomes.setdefault((cs.marks, len(cs.warns), flags), cs)
        outs: list[PState] = []
        targets = (n.targets if isinstance(n, ast.Assign) else [n.target]) if isinstance(n, (ast.Assign, ast.AnnAssign)) else []
        tval = self.tainted(call, s)
        for (marks, nw, flags), cs in outcomes.items():
            o = s.copy()
            o.marks = o.marks | marks
            o.warns = o.warns + cs.warns
            for tg in targets:
                els = [tg] if isinstance(tg, ast.Name) else (list(tg.elts) if isinstance(tg, (ast.Tuple, ast.List)) else [])
                for i, el in enumerate(els):
                    if not isinstance(el, ast.Name):
                        continue
                    self._forget(o, el.id)
                    o.nulls.pop(el.id, None)
                    o.hollow = o.hollow - {el.id}
                    o.taint = (o.taint | {el.id}) if tval else (o.taint - {el.id})
                    fl = flags[i] if (len(flags) == len(els) and i < len(flags)) else (False, False)
                    if fl[0]:
                        o.unver = o.unver | {el.id}
                        o.events = o.events + (("unver-assign", n, False, False),)
                    else:
                        o.unver = o.unver - {el.id}
                    o.empty = (o.empty | {el.id}) if fl[1] else (o.empty - {el.id})
            outs.append(o)
        return outs

    def apply(self, n, st: PState) -> list[PState]:
        """States after executing CFG node ``n`` normally."""
        if not isinstance(n, ast.AST) or isinstance(n, ast.ExceptHandler):
            return [st]
        s = st.copy()
        cfg = self.cfg
        in_try = any(isinstance(x, tuple) and x[0] == "H" for x in cfg.succ.get(n, []))
        for e_ in header_exprs(n):
            for x in ast.walk(e_):
                if isinstance(x, ast.Attribute) and x.attr in ("labels", "anonlabels") and isinstance(x.ctx, ast.Load):
                    s.events = s.events + ((f"lookup:{x.attr}", x, False, False),)
        for call in node_calls(n):
            if xref_missing_warning(call, self.fi):
                if in_try:
                    raise Unsupported(f"{self.fi.qualname}: XREF_MISSING warning inside a try body")
                s.warns = s.warns + (call,)
            elif self_callee(self.c, self.fi, call) is not None and _may_warn_missing(self.c, self_callee(self.c, self.fi, call), set()):
                callee = self_callee(self.c, self.fi, call)
                if not (self.pv and param_of_arg(callee, call, self.pv) and callee.fq in _delegates(self.c)):
                    # a helper that warns: summarised (it must warn the same number of times on all its paths)
                    try:
                        k = _warn_summary(self.c, callee, set())
                    except Unsupported:
                        whole = isinstance(n, (ast.Assign, ast.AnnAssign, ast.Expr)) and n.value is call
                        if not whole or in_try or _depth_of(self) >= 2:
                            raise
                        return self._inline_helper(s, n, call, callee)
                    if k and in_try:
                        raise Unsupported(f"{self.fi.qualname}: XREF_MISSING warning (via {callee.qualname}) inside a try body")
                    s.warns = s.warns + (call,) * k
            else:
                callee = self_callee(self.c, self.fi, call)
                whole = isinstance(n, (ast.Assign, ast.AnnAssign)) and n.value is call
                if callee is not None and whole and not in_try and _depth_of(self) < 2 and not callee.is_lambda and any(self.is_request_id(a, s) for a in list(call.args) + [kw.value for kw in call.keywords]):
                    # a helper that is handed the requested fragment and returns values: follow it
                    try:
                        return self._inline_helper(s, n, call, callee)
                    except Unsupported:
                        pass
            if self.pv is not None and self.fi.module.resolve(dotted(call.func) or "") == "sphinx.util.nodes.make_refnode":
                tid = call.args[3] if len(call.args) > 3 and not any(isinstance(a, ast.Starred) for a in call.args[:4]) else next((kw.value for kw in call.keywords if kw.arg == "targetid"), None)
                if self.is_request_id(tid, s):
                    s.marks = s.marks | {f"unverified:{unparse(tid)} as targetid"}
            # sinks
            f = call.func
            if self.pv is not None and isinstance(f, ast.Attribute) and f.attr == "replace_self" and isinstance(f.value, ast.Name) and f.value.id == self.pv:
                arg = call.args[0] if call.args else None
                s.events = s.events + (("replace", call, bool(arg is not None and self.tainted(arg, s)), "ph" if self.is_placeholder(arg, s) else self.is_hollow(arg, s)),)
            elif self.pv is not None and isinstance(f, ast.Attribute) and f.attr == "replace" and unparse(f.value) == f"{self.pv}.parent" and len(call.args) == 2:
                s.events = s.events + (("replace", call, self.tainted(call.args[1], s), "ph" if self.is_placeholder(call.args[1], s) else self.is_hollow(call.args[1], s)),)
            hc = self_callee(self.c, self.fi, call)
            if hc is not None and not hc.is_lambda and self.pv is None:
                for a_ in call.args:
                    if isinstance(a_, ast.Name) and self._is_last_appended(a_.id):
                        p_ = param_of_arg(hc, call, a_.id)
                        tests = p_ is not None and any(isinstance(x, ast.Attribute) and x.attr == "children" and isinstance(x.value, ast.Name) and x.value.id == p_ for x in hc.local_nodes())
                        fills = p_ is not None and any(isinstance(x, ast.Call) and isinstance(x.func, ast.Attribute) and x.func.attr in ("append", "extend", "insert") and isinstance(x.func.value, ast.Name) and x.func.value.id == p_ for x in hc.local_nodes())
                        if tests and fills:
                            # an "ensure the reference has some text" helper
                            s.events = s.events + (("children-empty", call, a_.id, False), ("append-to", call, a_.id, False))
            if hc is not None and not hc.is_lambda:
                for a_ in call.args:
                    if isinstance(a_, ast.Name) and a_.id in (s.ph | s.hollow):
                        p_ = param_of_arg(hc, call, a_.id)
                        if p_ is not None and any((isinstance(x, ast.Attribute) and x.attr == "children" and unparse(x.value).split("[")[0] == p_) or (isinstance(x, ast.Call) and isinstance(x.func, ast.Attribute) and x.func.attr in ("append", "extend", "insert") and unparse(x.func.value).split("[")[0] == p_) for x in hc.local_nodes()):
                            # a helper inspects / fills the node (e.g. an extracted "ensure the node has some content")
                            s.ph = s.ph - {a_.id}
                            s.hollow = s.hollow - {a_.id}
            nm = self_call_name(call)
            if nm is not None and nm in self.sink_names:
                if nm == "_process_wrap_node" and call.args and self._text_only_node(call.args[0]):
                    nm = "_process_wrap_node:text-only"  # no reference is created: the link is given up, its text kept
                s.events = s.events + ((nm, call, False, False),)
        outs = [s]
        # bindings
        if isinstance(n, (ast.Assign, ast.AnnAssign)) and n.value is not None:
            targets = n.targets if isinstance(n, ast.Assign) else [n.target]
            outs = self._bind(s, n, targets, n.value)
        elif isinstance(n, ast.AugAssign) and isinstance(n.target, ast.Name):
            if self.tainted(n.value, s):
                s.taint = s.taint | {n.target.id}
            s.nulls.pop(n.target.id, None)
            s.empty = s.empty - {n.target.id}
            s.hollow = s.hollow - {n.target.id}
            s.unver = s.unver - {n.target.id}
            self._forget(s, n.target.id)
        elif isinstance(n, ast.Expr) and isinstance(n.value, ast.Call):
            c = n.value
            if self.pv is None and isinstance(c.func, ast.Attribute) and c.func.attr in ("append", "extend", "insert") and isinstance(c.func.value, ast.Name) and c.args:
                s.events = s.events + (("append-to", c, c.func.value.id, False),)
            if isinstance(c.func, ast.Attribute) and c.func.attr in ("append", "extend", "insert") and isinstance(c.func.value, ast.Name) and c.args:
                if self.tainted(c.args[-1], s):
                    s.taint = s.taint | {c.func.value.id}
                s.hollow = s.hollow - {c.func.value.id}
                if c.func.value.id in s.ph:
                    s.ph = s.ph - {c.func.value.id}  # something was added to the placeholder copy
                elif self.is_placeholder(c.args[-1], s) and len(c.args) == 1 and not any(isinstance(x, ast.Call) and _docutils_ctor_with_text(self.fi, x) for x in self._defs_of(c.func.value.id)):
                    s.ph = s.ph | {c.func.value.id}  # an otherwise empty wrapper around the placeholder copy
        elif isinstance(n, ast.For):
            for el in ast.walk(n.target):
                if isinstance(el, ast.Name):
                    s.nulls.pop(el.id, None)
                    self._forget(s, el.id)
        return outs

    def paths(self, start, stops, init: PState | None = None) -> list[tuple[object, PState]]:
        cfg = self.cfg
        stops = set(stops)
        results: list[tuple[object, PState]] = []
        stack = [(start, init or PState(), {})]
        steps = 0
        while stack:
            n, st, visits = stack.pop()
            steps += 1
            if steps > MAX_PATHS * 20 or len(results) > MAX_PATHS:
                raise Unsupported(f"{self.fi.qualname}: too many paths")
            lim = 2 if isinstance(n, (ast.For, ast.While)) else 1
            if visits.get(id(n) if not isinstance(n, (tuple, str)) else n, 0) >= lim:
                continue
            vk = id(n) if not isinstance(n, (tuple, str)) else n
            visits = {**visits, vk: visits.get(vk, 0) + 1}
            pre = st
            if isinstance(n, tuple) or isinstance(n, str):
                st2 = st.copy()
                st2.trail = st.trail + (n,)
                outs = [st2]
            else:
                outs = self.apply(n, st)
            if n in stops and n != start:
                for o in outs:
                    results.append((n, o))
                continue
            if n == EXIT:
                if EXIT in stops:
                    results.append((n, st))
                continue
            succs = cfg.succ.get(n, [])
            # exceptional edges: the statement did not complete
            for sc in succs:
                if isinstance(sc, tuple) and sc[0] in ("H", "FIN") and not (isinstance(n, tuple)):
                    pre_h = pre
                    if self.pv is None and sc[0] == "H" and isinstance(n, ast.AST) and any(self.is_attempt(c) or (isinstance(c.func, ast.Attribute) and c.func.attr in RAISING_LOOKUPS) for c in node_calls(n)):
                        # renderer: the lookup itself raised (e.g. relfn2path on an unusable path) - a failed lookup
                        pre_h = pre.copy()
                        pre_h.marks = pre_h.marks | {f"raised:{short(n, 40)}"}
                    stack.append((sc, pre_h, visits))
            for o in outs:
                allowed = None
                if isinstance(n, (ast.If, ast.While)):
                    allowed = self.eval_test(n.test, o)
                for sc in succs:
                    if isinstance(sc, tuple) and sc[0] in ("H", "FIN") and not isinstance(n, tuple):
                        continue
                    if sc == "RAISE":
                        continue
                    o2 = o
                    if isinstance(sc, tuple) and sc[0] in ("T", "F") and sc[1] is n and isinstance(n, (ast.If, ast.While)):
                        if allowed is not None and sc[0] not in allowed:
                            continue
                        o2 = self.branch_effects(o, n.test, sc[0] == "T")
                    stack.append((sc, o2, visits))
        return results


def _depth_of(en) -> int:
    return getattr(en, "depth", 0)


def _docutils_ctor_with_text(fi: FunctionInfo, call: ast.Call) -> bool:
    """A docutils node constructor that is given text or children (positional arguments that are not all '')."""
    if not fi.module.resolve(dotted(call.func) or "").startswith("docutils.nodes."):
        return False
    return any(not (isinstance(a, ast.Constant) and a.value == "") for a in call.args)


def _may_warn_missing(corpus: Corpus, fi: FunctionInfo, seen: set) -> bool:
    if fi.fq in seen or fi.is_lambda:
        return False
    seen.add(fi.fq)
    for n in fi.local_nodes():
        if isinstance(n, ast.Call):
            if xref_missing_warning(n, fi):
                return True
            callee = self_callee(corpus, fi, n)
            if callee is not None and _may_warn_missing(corpus, callee, seen):
                return True
    return False


def _warn_summary(corpus: Corpus, fi: FunctionInfo, active: set) -> int:
    """Number of XREF_MISSING warnings a helper issues - it must be the same on all its normal paths."""
    memo = corpus.cache("c12-warn-summaries", dict)
    if fi.fq in memo:
        return memo[fi.fq]
    if fi.fq in active or fi.is_lambda:
        raise Unsupported(f"recursive warning helper {fi.qualname}")
    active = active | {fi.fq}
    cfg = get_cfg(fi)

    def w(n) -> int:
        if not isinstance(n, ast.AST):
            return 0
        k = 0
        for call in node_calls(n):
            if xref_missing_warning(call, fi):
                k += 1
            else:
                callee = self_callee(corpus, fi, call)
                if callee is not None and _may_warn_missing(corpus, callee, set()):
                    k += _warn_summary(corpus, callee, active)
        return k

    got = cfg.counts(ENTRY, [EXIT], w).get(EXIT, {0})
    if len(got) != 1 or 2 in got:
        raise Unsupported(f"helper {fi.qualname} issues XREF_MISSING on some of its paths only (counts {sorted(got)}): warning protocol not understood")
    memo[fi.fq] = next(iter(got))
    return memo[fi.fq]


def _delegates(corpus: Corpus) -> dict[str, tuple[FunctionInfo, str]]:
    """Self-methods of the resolver that receive the pending node from run's region and replace it themselves."""

    def compute():
        sh = _shape(corpus)
        rc = ReplaceCounter(corpus)
        out = {}
        for n in sh.cfg.reachable_from(sh.start):
            if not isinstance(n, ast.AST) or not sh._inside_loop(n):
                continue
            for call in node_calls(n):
                callee = self_callee(corpus, sh.run, call)
                if callee is None:
                    continue
                p = param_of_arg(callee, call, sh.var)
                if p is not None and rc.summary(callee, p) != {0}:
                    out[callee.fq] = (callee, p)
        return out

    return corpus.cache("c12-delegates", compute)


def _warning_names_target(call: ast.Call, fi: FunctionInfo) -> tuple[bool, str]:
    """log_warning(target, msg, ...): the message interpolates the value passed as target."""
    if not (isinstance(call.func, ast.Attribute) and call.func.attr == "log_warning"):
        return True, "create_warning site (message judged by reading)"
    target = call_arg(call, 0, "target")
    msg = call_arg(call, 1, "msg")
    if target is None or msg is None:
        return False, "log_warning without target/msg"
    if isinstance(msg, ast.Name):
        defs = assignments_to(fi, msg.id)
        if len(defs) != 1:
            raise Unsupported(f"{fi.qualname}: message variable `{msg.id}` not single-assignment")
        msg = defs[0][1]
    if not isinstance(msg, ast.JoinedStr):
        raise Unsupported(f"{fi.qualname}: warning message is not an f-string (`{short(msg, 40)}`)")
    tt = unparse(target)
    inter = [unparse(v.value) for v in msg.values if isinstance(v, ast.FormattedValue)]
    if any(tt == x or tt in x for x in inter):
        return True, f"message interpolates {tt}"
    return False, f"the message interpolates {inter} but the warning's target is `{tt}`: the warning does not name the unresolved destination"


def _unknown_failure_idiom(cfg: CFG, en: Enumerator, call: ast.Call) -> str | None:
    """A warning on a path without marks: is it guarded by a test that looks like a failure test we do not model?"""
    for t, pol in all_guards(cfg, call):
        if isinstance(t, ast.Compare) and len(t.ops) == 1 and isinstance(t.ops[0], (ast.In, ast.NotIn)) and not en.is_registry(t.comparators[0]):
            return unparse(t)
        if isinstance(t, ast.Compare) and len(t.ops) == 1 and isinstance(t.ops[0], (ast.Is, ast.IsNot)) and not (isinstance(t.left, ast.Name)):
            return unparse(t)
        if isinstance(t, ast.Name) and t.id in en.null_tested:
            continue  # modelled nullness test
        if isinstance(t, (ast.Name, ast.Attribute, ast.Call, ast.Subscript)) and not pol:
            return "not " + unparse(t)
    return None


def _judge_paths(rep: Report, rule_id: str, fi: FunctionInfo, en: Enumerator, results, *, text_rule: bool, failing_of, label: str):
    """Group paths by outcome class, judge warnings (and text) per class."""
    cfg = en.cfg
    classes: dict[str, list[PState]] = {}
    for stop, st in results:
        cls = failing_of(st)
        classes.setdefault(cls, []).append(st)
    for cls, sts in sorted(classes.items()):
        failing = cls != "resolved"
        want = 1 if failing else 0
        k = f"{fi.fq}|{label}|{cls}|warnings"
        bad = [s for s in sts if len(s.warns) != want]
        site = fi.site()
        if not bad:
            rep.ok(rule_id, k, site, f"{len(sts)} path(s), each passes {want} XREF_MISSING warning(s)")
        else:
            s = bad[0]
            if not failing and s.warns:
                idiom = _unknown_failure_idiom(cfg, en, s.warns[0])
                if idiom:
                    rep.error(rule_id, f"{fi.qualname}: XREF_MISSING warning under `{idiom}`, a failure test this rule does not model")
                    continue
            site = fi.module.site(s.warns[0]) if s.warns else site
            if failing:
                what = (
                    f"a path on which resolution failed ({cls}) passes {len(s.warns)} XREF_MISSING warning(s), expected exactly one"
                )
                ua = [e for e in s.events if e[0] == "unver-assign"]
                if "unverified:" in cls and ua and not s.warns:
                    site = fi.module.site(ua[-1][1])
                    what = (
                        f"`{short(ua[-1][1], 60)}` makes the fragment the link asked for the target id of the reference without it having been found in a registry, "
                        f"and the path passes no XREF_MISSING warning: an unresolvable '#anchor' is accepted silently ({cls})"
                    )
            else:
                what = f"a path on which nothing failed passes {len(s.warns)} XREF_MISSING warning(s), expected none"
            rep.violation(rule_id, k, site, what, describe(cfg, s.trail))
        if text_rule:
            k = f"{fi.fq}|{label}|{cls}|replacement has text"
            hol = [(s, e) for s in sts for e in s.events if e[0] == "replace" and e[3] and not (e[3] == "ph" and "explicit" in s.flags)]
            if not hol:
                rep.ok(rule_id, k, fi.site(), "no path replaces the link by a node built from the empty string only, or by the bare copy of its (possibly empty) text placeholder")
            else:
                s, ev = hol[0]
                why = (
                    "puts a bare copy of the link's text placeholder in its place, which is empty for a link written without text, and nothing on the path inspected or filled it"
                    if ev[3] == "ph"
                    else "inserts a reference whose only text is the constant \"\" (no explicit text, no title, no fallback literal)"
                )
                rep.violation(
                    rule_id,
                    k,
                    fi.module.site(ev[1]),
                    f"on a path of this class `{short(ev[1], 50)}` {why}: the link is rendered without any visible text",
                    describe(cfg, s.trail),
                )
            k = f"{fi.fq}|{label}|{cls}|text kept"
            judged = [s for s in sts if "implicit" not in s.flags]
            badt = []
            for s in judged:
                reps = [e for e in s.events if e[0] == "replace"]
                if reps and not all(e[2] for e in reps):
                    badt.append((s, [e for e in reps if not e[2]][0]))
            if not judged:
                rep.ok(rule_id, k, fi.site(), "only implicit-text paths")
            elif not badt:
                rep.ok(rule_id, k, fi.site(), f"{len(judged)} path(s): the replacement contains the original text subtree")
            else:
                s, ev = badt[0]
                rep.violation(
                    rule_id,
                    k,
                    fi.module.site(ev[1]),
                    f"`{short(ev[1], 60)}` replaces the pending_xref by a node that does not contain the link's text subtree ({en.pv}[0] / its children) on a path where the text is not implicit: the explicit link text (nested markup) is lost",
                    describe(cfg, s.trail),
                )


def _mentions_nitpick(corpus: Corpus, fi: FunctionInfo, e: ast.AST, depth: int = 0) -> bool:
    """Does the test consult the nitpick_ignore / nitpick_ignore_regex configuration (through locals and one helper level)?"""
    if depth > 3:
        return False
    for x in ast.walk(e):
        if isinstance(x, ast.Attribute) and x.attr.startswith("nitpick_ignore"):
            return True
        if isinstance(x, ast.Name) and isinstance(x.ctx, ast.Load):
            defs = assignments_to(fi, x.id)
            if len(defs) == 1 and defs[0][2] is None and not isinstance(defs[0][1], ast.Name) and _mentions_nitpick(corpus, fi, defs[0][1], depth + 1):
                return True
        if isinstance(x, ast.Call):
            callee = self_callee(corpus, fi, x)
            if callee is not None and not callee.is_lambda and any(isinstance(y, ast.Attribute) and y.attr.startswith("nitpick_ignore") for y in callee.local_nodes()):
                return True
    return False


def _nitpick_regex_ops(nodes) -> list[tuple[str, str, ast.Call]]:
    """(part, regex operation, call) for every regex applied to an element of a nitpick_ignore_regex entry;
    part is 'type' / 'target' (first / second element of the iterated pair) or '?'."""
    out = []
    pairs: dict[str, str] = {}
    nodes = list(nodes)
    for n in nodes:
        if isinstance(n, (ast.For, ast.comprehension)) and any(isinstance(a, ast.Attribute) and a.attr == "nitpick_ignore_regex" for a in ast.walk(n.iter)):
            tg = n.target
            if isinstance(tg, ast.Tuple) and len(tg.elts) == 2 and all(isinstance(x, ast.Name) for x in tg.elts):
                pairs[tg.elts[0].id] = "type"
                pairs[tg.elts[1].id] = "target"
            elif isinstance(tg, ast.Name):
                pairs[tg.id] = "?"
    for n in nodes:
        if not (isinstance(n, ast.Call) and isinstance(n.func, ast.Attribute) and n.func.attr in ("match", "fullmatch", "search", "findall", "finditer", "sub", "split")):
            continue
        pat = None
        recv = n.func.value
        if isinstance(recv, ast.Name) and recv.id == "re" and n.args:
            pat = n.args[0]
        elif isinstance(recv, ast.Call) and dotted(recv.func) in ("re.compile", "compile") and recv.args:
            pat = recv.args[0]
        if pat is None:
            continue
        names = [x.id for x in ast.walk(pat) if isinstance(x, ast.Name) and x.id in pairs]
        if names:
            out.append((pairs[names[0]], n.func.attr, n))
    return out


def _regex_anchoring(corpus: Corpus, rep: Report) -> None:
    """nitpick_ignore_regex entries are matched against the whole type and the whole target (re.fullmatch), as Sphinx's
    own ReferencesResolver does (read from the installed sphinx source): a prefix/substring match silences more
    unresolved destinations than the configuration names."""
    fi = corpus.func(RESOLVER + ".log_warning")
    ops = _nitpick_regex_ops(fi.local_nodes())
    # one level of helper (e.g. self._is_ignored(target))
    for c in [x for x in fi.local_nodes() if isinstance(x, ast.Call)]:
        callee = self_callee(corpus, fi, c)
        if callee is not None and not callee.is_lambda:
            ops += _nitpick_regex_ops(callee.local_nodes())
    allowed = {"type": {"fullmatch"}, "target": {"fullmatch"}, "?": {"fullmatch"}}
    try:
        sib = corpus.sibling("sphinx/transforms/post_transforms/__init__.py")
        rep.saw_sibling(sib.rel)
        for part, op, _ in _nitpick_regex_ops(ast.walk(sib.tree)):
            allowed.setdefault(part, set()).add(op)
    except Exception:
        pass  # oracle unavailable: the documented semantics (full match) stand
    if not ops:
        if any(isinstance(a, ast.Attribute) and a.attr == "nitpick_ignore_regex" for a in fi.local_nodes()):
            rep.error("C12.R3", "log_warning reads nitpick_ignore_regex but no regex application on its entries was found")
        return
    for part, op, call in ops:
        k = f"{RESOLVER.replace('sphinx_ext.', 'myst_parser.sphinx_ext.')}.log_warning|nitpick_ignore_regex {part} part|matched as a whole"
        site = fi.module.site(call)
        if op in allowed.get(part, {"fullmatch"}):
            rep.ok("C12.R3", k, site, f"re.{op}")
        else:
            rep.violation("C12.R3", k, site, f"`{short(call, 60)}` applies the {part} pattern of a nitpick_ignore_regex entry with re.{op} (Sphinx: re.fullmatch): an ignore pattern then also silences every unresolved destination that merely starts with / contains a match, so such links lose their one xref_missing warning")


def _emission_unless_ignored(corpus: Corpus, rep: Report) -> None:
    """log_warning: the only reason not to emit is a nitpick_ignore(_regex) match for this target.
    (A suppression that depends on anything else - a memo of earlier answers, a flag, the target being falsy -
    makes "exactly one warning" depend on history or on the spelling of the link.)"""
    fi = corpus.func(RESOLVER + ".log_warning")
    rep.saw_function(fi.fq)
    cfg = get_cfg(fi)
    emits = [n for n in cfg.nodes if isinstance(n, ast.AST) and any(isinstance(c.func, ast.Attribute) and c.func.attr in ("warning", "warn", "log") and any(k.arg in ("type", "subtype") for k in c.keywords) for c in node_calls(n))]
    if not emits:
        raise Unsupported("log_warning: no LOGGER.warning(..., type=, subtype=) emission found")

    def match_edge(n) -> bool:
        if not (isinstance(n, tuple) and n[0] in ("T", "F") and isinstance(n[1], (ast.If, ast.While))):
            return False
        for e, pol in facts(n[1].test, n[0] == "T"):
            if not pol or isinstance(e, (ast.Attribute, ast.Constant)):
                continue  # a bare `self.config.nitpick_ignore` truthiness test is not a match
            if isinstance(e, ast.Name):
                defs = assignments_to(fi, e.id)
                if not (len(defs) == 1 and defs[0][2] is None and not isinstance(defs[0][1], (ast.Attribute, ast.Name))):
                    continue
            if _mentions_nitpick(corpus, fi, e):
                return True
        return False

    n_inst = 0
    for stop in cfg.pred.get(EXIT, []):
        st = stop[1] if isinstance(stop, tuple) else stop
        k = f"{fi.fq}|exit {_stop_key(cfg, stop)}|suppressed only on a nitpick_ignore match"
        site = fi.module.site(st)
        n_inst += 1
        if any(stop is e for e in emits):
            rep.ok("C12.R3", k, site, "the emission itself")
            continue
        silent = cfg.paths_avoiding(ENTRY, stop, lambda n: any(n is e for e in emits) or match_edge(n))
        if silent and not match_edge(stop):
            rep.violation("C12.R3", k, site, f"log_warning can leave through `{short(st, 50)}` without emitting and without a nitpick_ignore / nitpick_ignore_regex match for this target: whether an unresolvable link warns then depends on something else than (target, configuration)")
        else:
            rep.ok("C12.R3", k, site, "reached only after the emission or a nitpick match")
    if n_inst < 2:
        rep.error("C12.R3", "log_warning: fewer than 2 exits (two nitpick returns + the emission on the pinned tree)")


def _url_renderer_fills_text(corpus: Corpus) -> bool:
    """Does render_link_url itself guarantee a non-empty reference (inspects the children of the node it builds)?"""
    f = corpus.func(f"{BASE_R}.render_link_url")
    return any(isinstance(x, ast.Attribute) and x.attr == "children" and isinstance(x.value, ast.Name) and x.value.id != "token" for x in f.local_nodes())


def _given_up_has_text(corpus: Corpus, rep: Report, fi: FunctionInfo, en: "Enumerator", results) -> None:
    """After a failed lookup the handler gives the link up to render_link_url, which only renders the link's own
    child tokens: for a link written without text the handler must inspect the node that was appended
    (self.current_node[-1]) and fill it when it is empty - otherwise the warning is followed by an invisible link."""
    paths = [st for _, st in results if st.marks and any(e[0] == "render_link_url" for e in st.events)]
    if not paths:
        return
    k = f"{fi.fq}|renderer|given-up link|never rendered without text"
    if _url_renderer_fills_text(corpus):
        rep.ok("C12.R3", k, fi.site(), "render_link_url fills an empty reference itself")
        return
    bad = None
    for st in paths:
        evs = list(st.events)
        i_url = max(i for i, e in enumerate(evs) if e[0] == "render_link_url")
        after = evs[i_url + 1 :]
        empties = [e for e in after if e[0] == "children-empty"]
        nonempt = [e for e in after if e[0] == "children-nonempty"]
        if empties:
            nm = empties[0][2]
            if not any(e[0] == "append-to" and e[2] == nm for e in after[after.index(empties[0]) :]):
                bad = (st, f"tests `{nm}.children` but adds nothing on the empty branch")
        elif not nonempt:
            bad = (st, "never inspects the children of the reference that render_link_url appended (self.current_node[-1])")
    if bad:
        st, why = bad
        url = [e for e in st.events if e[0] == "render_link_url"][-1]
        rep.violation("C12.R3", k, fi.module.site(url[1]), f"after the failed lookup the link is given up to render_link_url, which renders only the link's own child tokens, and the handler {why}: `[](project:nofile)` gets its warning and then an invisible `<a></a>`", describe(en.cfg, st.trail))
    else:
        rep.ok("C12.R3", k, fi.site(), f"{len(paths)} giving-up path(s): the appended reference is inspected and filled when empty")


@rule("C12.R3")
def r3_exactly_one_warning(corpus: Corpus, rep: Report, tier: str):
    rep.rule("C12.R3", "failing paths pass exactly one XREF_MISSING warning naming the target, other paths none; the replacement keeps the text subtree")
    sh = _shape(corpus)

    def cls_of(st: PState) -> str:
        return "failed:" + ",".join(sorted(st.marks)) if st.marks else "resolved"

    # resolver: run's region and the delegates
    en = Enumerator(corpus, sh.run, sh.var)
    res = en.paths(sh.start, sh.region_stops())
    if not res:
        raise Unsupported("no path through the loop body of run")
    _judge_paths(rep, "C12.R3", sh.run, en, res, text_rule=True, failing_of=cls_of, label="resolver")
    rep.saw_function(sh.run.fq)
    for fq, (callee, p) in sorted(_delegates(corpus).items()):
        en2 = Enumerator(corpus, callee, p)
        res2 = en2.paths(ENTRY, [EXIT])
        if not res2:
            raise Unsupported(f"no path through {callee.qualname}")
        _judge_paths(rep, "C12.R3", callee, en2, res2, text_rule=True, failing_of=cls_of, label="resolver")
        rep.saw_function(callee.fq)
    _emission_unless_ignored(corpus, rep)
    _regex_anchoring(corpus, rep)
    # every XREF_MISSING log_warning in the resolver names its target
    n_w = 0
    for m in sh.cls.methods.values():
        for call in [c for c in m.local_nodes() if isinstance(c, ast.Call) and xref_missing_warning(c, m)]:
            n_w += 1
            ok, why = _warning_names_target(call, m)
            k = f"{m.fq}|{short(call_arg(call, 0, 'target') or call, 40)}|warning names the target"
            (rep.ok if ok else rep.violation)("C12.R3", k, m.module.site(call), why)
            rep.saw_call(m.module.site(call))
    if n_w < 2:
        rep.error("C12.R3", f"only {n_w} XREF_MISSING emission(s) left in MystReferenceResolver (3 on the pinned tree)")
    # renderer side: a failed path2doc lookup that gives up to render_link_url warns once; wrap paths never warn
    for name in ("render_link_project", "render_link_unknown", "render_link_path"):
        fi = corpus.func(f"{SPHINX_R}.{name}")
        rep.saw_function(fi.fq)
        en3 = Enumerator(corpus, fi, None, sink_names=("_process_wrap_node", "render_link_url", "render_link_anchor"))
        res3 = en3.paths(ENTRY, [EXIT])

        def cls_r(st: PState) -> str:
            gave_up = any(e[0] in ("render_link_url", "_process_wrap_node:text-only") for e in st.events)
            no_sink = not any(e[0] in ("_process_wrap_node", "_process_wrap_node:text-only", "render_link_url", "render_link_anchor") for e in st.events)
            if st.marks and gave_up:
                how = "render_link_url" if any(e[0] == "render_link_url" for e in st.events) else "text only"
                return "failed:" + ",".join(sorted(st.marks)) + "->" + how
            if st.marks and no_sink:
                return "failed:" + ",".join(sorted(st.marks)) + "->nothing rendered"  # R1 reports the dropped link
            return "resolved"

        _judge_paths(rep, "C12.R3", fi, en3, res3, text_rule=False, failing_of=cls_r, label="renderer")
        _given_up_has_text(corpus, rep, fi, en3, res3)
    rep.expect_min("C12.R3", 12, "outcome classes of run (2), resolve_myst_ref_doc (3), text obligations, 3 named warnings, 3 renderer handlers")


# ---------------------------------------------------------------------------
# R1 classification totality in the renderer


def _count_rule(rep: Report, rule_id: str, fi: FunctionInfo, weight, start, what_ok: str, what_zero: str, what_two: str, label: str, want: set[int] = frozenset({1})):
    cfg = get_cfg(fi)
    stops = [p for p in cfg.pred.get(EXIT, [])]
    res = cfg.counts(start, stops, weight)
    n = 0
    for stop in stops:
        got = res.get(stop)
        if not got:
            continue
        n += 1
        k = f"{fi.fq}|{label}|exit {_stop_key(cfg, stop)}"
        site = fi.module.site(stop[1] if isinstance(stop, tuple) else stop)
        if got <= set(want):
            rep.ok(rule_id, k, site, what_ok)
        elif min(got) < min(want):
            rep.violation(rule_id, k, site, what_zero + f" (counts {sorted(got)})")
        else:
            rep.violation(rule_id, k, site, what_two + f" (counts {sorted(got)})")
    return n


def _class_const(corpus: Corpus, fi: FunctionInfo, e: ast.expr):
    """Value node of `self.NAME` / `cls.NAME` / `Class.NAME` / module NAME when NAME is bound once to a literal."""
    name = None
    if isinstance(e, ast.Attribute) and isinstance(e.value, ast.Name):
        name = e.attr
        ci = owner_class(corpus, fi) if e.value.id in ("self", "cls") else fi.module.classes.get(e.value.id)
        if ci is not None:
            for c in corpus.mro(ci):
                for st in c.node.body:
                    tg = st.targets[0] if isinstance(st, ast.Assign) and len(st.targets) == 1 else (st.target if isinstance(st, ast.AnnAssign) else None)
                    if isinstance(tg, ast.Name) and tg.id == name and getattr(st, "value", None) is not None:
                        return st.value
        return None
    if isinstance(e, ast.Name):
        if assignments_to(fi, e.id):
            defs = assignments_to(fi, e.id)
            return defs[0][1] if len(defs) == 1 and defs[0][2] is None else None
        return fi.module.const_nodes.get(e.id)
    return None


def _dispatch_names(corpus: Corpus, fi: FunctionInfo, call: ast.Call) -> list[str] | None:
    """`getattr(self, TABLE[key])(...)` / `getattr(self, TABLE.get(key))(...)` with TABLE a literal dict of method
    names, or `getattr(self, "name")(...)`: the method names that can be called."""
    f = call.func
    if not (isinstance(f, ast.Call) and isinstance(f.func, ast.Name) and f.func.id == "getattr" and len(f.args) >= 2 and isinstance(f.args[0], ast.Name) and f.args[0].id == "self"):
        return None
    sel = f.args[1]
    if isinstance(sel, ast.Constant) and isinstance(sel.value, str):
        return [sel.value]
    tab = None
    if isinstance(sel, ast.Subscript):
        tab = sel.value
    elif isinstance(sel, ast.Call) and isinstance(sel.func, ast.Attribute) and sel.func.attr == "get" and len(sel.args) == 1:
        tab = sel.func.value
    if tab is None:
        raise Unsupported(f"{fi.qualname}: dynamic dispatch `{short(call, 60)}` not understood")
    lit = _class_const(corpus, fi, tab)
    if not isinstance(lit, ast.Dict) or not lit.values or not all(isinstance(v, ast.Constant) and isinstance(v.value, str) for v in lit.values):
        raise Unsupported(f"{fi.qualname}: dispatch table `{unparse(tab)}` is not a literal dict of method names")
    return [v.value for v in lit.values]


FILE_TESTS = {"is_file", "isfile"}
EXIST_TESTS = {"exists", "lexists", "access", "is_dir", "isdir", "stat"}


def _file_predicates(fi: FunctionInfo, e: ast.AST, depth: int = 0, seen: frozenset = frozenset()) -> set[str]:
    """File-system predicates a truthy fact rests on: calls in the expression, in the values bound to the names it
    reads, and in the guards under which those values were bound (`if exists(p): path = Path(p)` ... `if path:`)."""
    out: set[str] = set()
    if depth > 4:
        return out
    for x in ast.walk(e):
        if isinstance(x, ast.Call):
            nm = x.func.attr if isinstance(x.func, ast.Attribute) else (x.func.id if isinstance(x.func, ast.Name) else "")
            if nm in FILE_TESTS | EXIST_TESTS:
                out.add(nm)
            else:
                lc = _local_callee(fi, x)
                if lc is not None and depth < 3 and not lc[0].is_lambda:
                    # a predicate helper: what its return values rest on
                    for r in lc[0].local_nodes():
                        if isinstance(r, ast.Return) and r.value is not None:
                            out |= _file_predicates(lc[0], r.value, depth + 1, frozenset())
        elif isinstance(x, ast.Name) and isinstance(x.ctx, ast.Load) and x.id not in seen:
            cfg = get_cfg(fi)
            for st, val, pos in assignments_to(fi, x.id):
                if isinstance(val, ast.Constant):
                    continue
                out |= _file_predicates(fi, val, depth + 1, seen | {x.id})
                if st is not None:
                    try:
                        for t, pol in cfg.guards(cfg.stmt_of(st)):
                            if isinstance(t, ast.Compare) and len(t.ops) == 1 and isinstance(t.comparators[0], ast.Constant) and t.comparators[0].value is None and isinstance(t.ops[0], (ast.Is, ast.IsNot)):
                                if pol == isinstance(t.ops[0], ast.IsNot):
                                    out |= _file_predicates(fi, t.left, depth + 1, seen | {x.id})
                            elif pol:
                                out |= _file_predicates(fi, t, depth + 1, seen | {x.id})
                    except Unsupported:
                        pass
    return out


def _wrap_ctor(call: ast.Call, fi: FunctionInfo) -> str | None:
    full = fi.module.resolve(dotted(call.func) or "")
    if full in ("sphinx.addnodes.pending_xref", "sphinx.addnodes.download_reference"):
        return full.rsplit(".", 1)[1]
    return None


def _wrap_ctor_expr(val: ast.expr, fi: FunctionInfo) -> str | None:
    """Constructor name(s) if ``val`` is a wrap-node constructor call or a conditional expression of such calls."""
    if isinstance(val, ast.Call):
        return _wrap_ctor(val, fi)
    if isinstance(val, ast.IfExp):
        a, b = _wrap_ctor_expr(val.body, fi), _wrap_ctor_expr(val.orelse, fi)
        return "/".join(sorted({a, b})) if a and b else None
    return None


def _explicit_tests(fi: FunctionInfo, name: str) -> list[ast.If]:
    return [n for n in fi.local_nodes() if isinstance(n, ast.If) and isinstance(n.test, ast.Name) and n.test.id == name]


def _text_builder(corpus: Corpus, pw: FunctionInfo, wrap_p: str, tok_p: str, exp_p: str = "explicit"):
    """Where the inner (text) node of a link is chosen: ``_process_wrap_node`` itself, or ONE private helper it
    calls with its own ``explicit`` flag and whose result is the node appended to the wrap node.

    Returns (function, explicit name, token name, wrap name or None, helper call or None)."""
    if _explicit_tests(pw, exp_p):
        return pw, exp_p, tok_p, wrap_p, None
    cands = []
    for c in pw.local_nodes():
        if isinstance(c, ast.Call) and self_call_name(c):
            callee = self_callee(corpus, pw, c)
            if callee is None or callee.fq == pw.fq:
                continue
            ep = param_of_arg(callee, c, exp_p)
            if ep and _explicit_tests(callee, ep):
                cands.append((c, callee, ep))
    if len(cands) != 1:
        return None
    call, callee, ep = cands[0]
    for nm in (exp_p, tok_p, wrap_p):
        if assignments_to(pw, nm):
            raise Unsupported(f"_process_wrap_node rebinds `{nm}` before the text helper runs")
    tp = param_of_arg(callee, call, tok_p)
    if tp is None:
        raise Unsupported(f"{callee.qualname}: the token is not passed on as a bare name")
    wp = param_of_arg(callee, call, wrap_p)
    for nm in (ep, tp, wp):
        if nm and assignments_to(callee, nm):
            raise Unsupported(f"{callee.qualname} rebinds its parameter `{nm}`")
    return callee, ep, tp, wp, call


@rule("C12.R1")
def r1_classification_totality(corpus: Corpus, rep: Report, tier: str):
    rep.rule("C12.R1", "every path of the Sphinx link handlers (and the dispatcher) hands the link to exactly one sink; the wrap node is fresh; explicit text is rendered beneath it")
    handlers = [corpus.func(f"{SPHINX_R}.{n}") for n in ("render_link_unknown", "render_link_project", "render_link_path")]
    dispatcher = corpus.func(f"{BASE_R}.render_link")
    pw = corpus.func(f"{SPHINX_R}._process_wrap_node")

    def sink_name(call: ast.Call, fi: FunctionInfo) -> str | None:
        names = _dispatch_names(corpus, fi, call)
        if names is not None:
            ci = owner_class(corpus, fi)
            missing = [x for x in names if ci is None or corpus.lookup_method(ci, x) is None]
            if missing:
                raise Unsupported(f"{fi.qualname}: dispatch table names {missing}, which are not methods of the renderer")
            if all(x.startswith("render_link") and x != fi.name for x in names):
                return "|".join(sorted(names))
            return None
        nm = self_call_name(call)
        if nm is None and isinstance(call.func, ast.Attribute) and dotted(call.func.value) == "super()":
            nm = call.func.attr
            return nm if nm.startswith("render_link") else None
        if nm and (nm == "_process_wrap_node" or (nm.startswith("render_link") and nm != fi.name)):
            return nm
        return None

    summaries: dict[str, int] = {}

    def helper_sinks(callee: FunctionInfo, depth: int = 0) -> int:
        """Sinks a private helper passes on every path (uniform count required)."""
        if callee.fq in summaries:
            return summaries[callee.fq]
        if depth > 3 or callee.is_lambda or not any(isinstance(c, ast.Call) and sink_name(c, callee) for c in callee.local_nodes()):
            return 0
        summaries[callee.fq] = 0
        cf = get_cfg(callee)
        got = cf.counts(ENTRY, [EXIT], sink_weight(callee, depth + 1)).get(EXIT, {0})
        if len(got) != 1:
            raise Unsupported(f"helper {callee.qualname} renders the link on some paths only (counts {sorted(got)})")
        summaries[callee.fq] = next(iter(got))
        return summaries[callee.fq]

    def sink_weight(fi, depth: int = 0):
        cfg = get_cfg(fi)

        def w(n):
            if not isinstance(n, ast.AST):
                return 0
            k = 0
            for call in node_calls(n):
                add = 0
                if sink_name(call, fi):
                    add = 1
                else:
                    callee = self_callee(corpus, fi, call)
                    if callee is not None and callee.fq != fi.fq and not callee.name.startswith("render_"):
                        add = helper_sinks(callee, depth)
                if add:
                    k += add
                    if any(isinstance(s, tuple) and s[0] == "H" for s in cfg.succ.get(n, [])):
                        raise Unsupported(f"{fi.qualname}: link sink inside a try body")
            return k

        return w

    for fi in handlers + [dispatcher]:
        rep.saw_function(fi.fq)
        n = _count_rule(
            rep,
            "C12.R1",
            fi,
            sink_weight(fi),
            ENTRY,
            "exactly one sink (wrap node or delegation) on every path to this exit",
            "a path reaches this exit without rendering the link (no wrap node, no delegation): the link and its text are dropped",
            "a path to this exit renders the link twice",
            "one sink",
        )
        if n == 0:
            raise Unsupported(f"{fi.qualname}: no exit reachable")
    # the node handed to _process_wrap_node is a wrap node constructed in the same function (all its bindings)
    for fi in handlers:
        for call in [c for c in fi.local_nodes() if isinstance(c, ast.Call) and self_call_name(c) == "_process_wrap_node"]:
            rep.saw_call(fi.module.site(call))
            a = call_arg(call, 0, "wrap_node")
            k = f"{fi.fq}|wrap node passed to _process_wrap_node is freshly constructed"
            if isinstance(a, ast.Call):
                kd = _wrap_ctor_expr(a, fi) or ("text-only " + fi.module.resolve(dotted(a.func) or "").rsplit(".", 1)[-1] if fi.module.resolve(dotted(a.func) or "").startswith("docutils.nodes.") else None)
                if kd:
                    rep.ok("C12.R1", k + f"|{kd}", fi.module.site(call), f"constructed in the call: {kd}")
                else:
                    rep.violation("C12.R1", k, fi.module.site(call), f"`{short(a, 50)}` is not a freshly constructed node")
                continue
            if not isinstance(a, ast.Name):
                rep.error("C12.R1", f"{fi.qualname}: first argument of _process_wrap_node is not a local name")
                continue
            defs = assignments_to(fi, a.id)
            kinds = []
            for st, val, pos in defs:
                kinds.append(_wrap_ctor_expr(val, fi) if pos is None else None)
            if defs and all(kinds):
                rep.ok("C12.R1", k, fi.module.site(call), f"{len(defs)} binding(s): {', '.join(sorted(set(kinds)))}")
            else:
                bad = [d for d, kd in zip(defs, kinds) if not kd]
                rep.violation("C12.R1", k, fi.module.site(call), f"`{a.id}` can hold something other than a fresh pending_xref/download_reference" + (f" (`{short(bad[0][1], 50)}`)" if bad else " (no binding)"))
    # a destination is classified as a local file (download) only after a regular-file test
    for fi in handlers:
        ctors = [c for c in fi.local_nodes() if isinstance(c, ast.Call) and _wrap_ctor(c, fi)]
        cfg = get_cfg(fi)
        for c in ctors:
            if _wrap_ctor(c, fi) != "download_reference":
                continue
            preds: set[str] = set()
            for t, pol in all_guards(cfg, c):
                if isinstance(t, ast.Compare) and len(t.ops) == 1 and isinstance(t.comparators[0], ast.Constant) and t.comparators[0].value is None and isinstance(t.ops[0], (ast.Is, ast.IsNot)):
                    # `lookup(...) is not None` holds / `lookup(...) is None` does not: the lookup answered
                    if pol == isinstance(t.ops[0], ast.IsNot):
                        preds |= _file_predicates(fi, t.left)
                elif pol:
                    preds |= _file_predicates(fi, t)
            k = f"{fi.fq}|download_reference|only for an existing regular file"
            site = fi.module.site(c)
            if preds & FILE_TESTS:
                rep.ok("C12.R1", k, site, f"under {sorted(preds & FILE_TESTS)}")
            elif preds & EXIST_TESTS:
                rep.violation("C12.R1", k, site, f"the destination is treated as a local non-document file after an existence test only ({sorted(preds & EXIST_TESTS)}), not a regular-file test: a destination that names an existing directory becomes a download_reference instead of going to project-wide (document / label) resolution")
            else:
                rep.violation("C12.R1", k, site, "a download_reference is created without a regular-file test of the destination: for a file that does not exist Sphinx's download collector answers with its own 'download file not readable' (not a myst.xref_missing warning, not reachable by suppress_warnings / nitpick_ignore), and a directory is offered as a download")
    # _process_wrap_node: attach once, inner once, children rendered iff explicit
    rep.saw_function(pw.fq)
    params = pw.params
    if len(params) < 4 or "explicit" not in params:
        raise Unsupported("_process_wrap_node signature not understood")
    wrap_p, tok_p = params[1], params[2]
    cfg = get_cfg(pw)

    def w_attach(n):
        return sum(1 for c in node_calls(n) if unparse(c.func) == "self.current_node.append" and c.args and isinstance(c.args[0], ast.Name) and c.args[0].id == wrap_p) if isinstance(n, ast.AST) else 0

    def w_inner(n):
        return sum(1 for c in node_calls(n) if isinstance(c.func, ast.Attribute) and c.func.attr in ("append", "extend") and isinstance(c.func.value, ast.Name) and c.func.value.id == wrap_p) if isinstance(n, ast.AST) else 0

    def w_children(n):
        return sum(1 for c in node_calls(n) if self_call_name(c) == "render_children" and c.args and isinstance(c.args[0], ast.Name) and c.args[0].id == tok_p) if isinstance(n, ast.AST) else 0

    _count_rule(rep, "C12.R1", pw, w_attach, ENTRY, "wrap node appended to current_node once", "the wrap node is not attached to the tree on a path", "the wrap node is attached twice", "wrap attached once")
    _count_rule(rep, "C12.R1", pw, w_inner, ENTRY, "inner node appended to the wrap node once", "the wrap node gets no inner (text) node on a path", "two inner nodes", "inner appended once")
    tb = _text_builder(corpus, pw, wrap_p, tok_p)
    if tb is None:
        raise Unsupported("_process_wrap_node: expected one `if explicit:` test")
    tf, t_exp, t_tok, t_wrap, hcall = tb
    ifs = _explicit_tests(tf, t_exp)
    if len(ifs) != 1:
        raise Unsupported("_process_wrap_node: expected one `if explicit:` test")

    def t_children(n):
        return sum(1 for c in node_calls(n) if self_call_name(c) == "render_children" and c.args and isinstance(c.args[0], ast.Name) and c.args[0].id == t_tok) if isinstance(n, ast.AST) else 0

    result_is_appended = True
    if hcall is not None:
        # the choice lives in a helper: it runs once per link, its result is the node appended to the wrap node, nothing
        # else renders the children, and the helper itself neither attaches nor fills the wrap node
        rep.saw_function(tf.fq)

        def w_helper(n):
            return sum(1 for c in node_calls(n) if self_call_name(c) == tf.name) if isinstance(n, ast.AST) else 0

        _count_rule(rep, "C12.R1", pw, w_helper, ENTRY, f"{tf.name} runs once", "the inner (text) node is not built on a path", "the inner (text) node is built twice (children rendered twice)", "inner appended once|text helper runs once")
        _count_rule(rep, "C12.R1", pw, w_children, ENTRY, "children rendered by the text helper only", "", "the children are also rendered outside the text helper", "explicit text rendered|only in the text helper", want={0})
        par = parent(hcall)
        result_is_appended = isinstance(par, ast.Call) and isinstance(par.func, ast.Attribute) and par.func.attr == "append" and isinstance(par.func.value, ast.Name) and par.func.value.id == wrap_p and par.args and par.args[0] is hcall
        if not result_is_appended and isinstance(par, ast.Assign) and len(par.targets) == 1 and isinstance(par.targets[0], ast.Name):
            rn = par.targets[0].id
            result_is_appended = len(assignments_to(pw, rn)) == 1 and any(
                isinstance(c, ast.Call) and isinstance(c.func, ast.Attribute) and c.func.attr == "append" and isinstance(c.func.value, ast.Name) and c.func.value.id == wrap_p and c.args and isinstance(c.args[0], ast.Name) and c.args[0].id == rn
                for c in pw.local_nodes()
            )
        if t_wrap:

            def h_touch(n):
                if not isinstance(n, ast.AST):
                    return 0
                return sum(
                    1
                    for c in node_calls(n)
                    if isinstance(c.func, ast.Attribute)
                    and c.func.attr in ("append", "extend")
                    and ((isinstance(c.func.value, ast.Name) and c.func.value.id == t_wrap) or (unparse(c.func) == "self.current_node.append" and c.args and isinstance(c.args[0], ast.Name) and c.args[0].id == t_wrap))
                )

            _count_rule(rep, "C12.R1", tf, h_touch, ENTRY, "the text helper leaves the wrap node alone", "", "the text helper also attaches / fills the wrap node (attached or filled twice)", "inner appended once|helper does not touch the wrap node", want={0})
        hcfg = get_cfg(tf)
        for stop in hcfg.pred.get(EXIT, []):
            k = f"{tf.fq}|inner appended once|exit {_stop_key(hcfg, stop)} returns a node"
            site = tf.module.site(stop[1] if isinstance(stop, tuple) else stop)
            if isinstance(stop, ast.Return) and stop.value is not None and not (isinstance(stop.value, ast.Constant) and stop.value.value is None):
                rep.ok("C12.R1", k, site)
            else:
                rep.violation("C12.R1", k, site, "the text helper ends without returning a node: the wrap node gets no inner (text) node on this path")
    _count_rule(rep, "C12.R1", tf, t_children, ("T", ifs[0]), "explicit text: children rendered once", "explicit link text is not rendered (render_children(token) missing on the explicit branch): nested markup lost", "children rendered twice", "explicit text rendered")
    _count_rule(rep, "C12.R1", tf, t_children, ("F", ifs[0]), "implicit text: children not rendered", "", "children of an implicit-text link (autolink) are rendered as text", "implicit text not rendered", want={0})
    # the children are rendered beneath the inner node that is then appended
    withs = [n for n in tf.local_nodes() if isinstance(n, ast.With) and any(t_children(s) for s in n.body)]
    k = f"{tf.fq}|children rendered beneath the inner node"
    if len(withs) == 1 and isinstance(withs[0].items[0].context_expr, ast.Call) and self_call_name(withs[0].items[0].context_expr) == "current_node_context":
        ctx = withs[0].items[0].context_expr
        inner = ctx.args[0] if ctx.args else None
        if hcall is None:
            appended = [c.args[0] for n in pw.local_nodes() if isinstance(n, ast.Call) for c in [n] if isinstance(c.func, ast.Attribute) and c.func.attr == "append" and isinstance(c.func.value, ast.Name) and c.func.value.id == wrap_p and c.args]
            same = isinstance(inner, ast.Name) and any(isinstance(a, ast.Name) and a.id == inner.id for a in appended)
        else:
            # every return that can follow the rendering hands back that very node, and the caller appends the result
            tcfg = get_cfg(tf)
            rets = [n for n in tcfg.reachable_from(withs[0]) if isinstance(n, ast.Return)]
            same = isinstance(inner, ast.Name) and bool(rets) and result_is_appended and all(isinstance(r.value, ast.Name) and r.value.id == inner.id for r in rets)
        if same:
            rep.ok("C12.R1", k, tf.module.site(withs[0]))
        else:
            rep.violation("C12.R1", k, tf.module.site(withs[0]), "the node the children are rendered into is not the node appended to the wrap node: explicit text ends up elsewhere")
    elif not any(t_children(n) for n in get_cfg(tf).nodes):
        pass  # no rendering of children at all: reported by the count obligation above
    else:
        rep.error("C12.R1", "_process_wrap_node: `with self.current_node_context(inner): self.render_children(token)` not found")
    rep.expect_min("C12.R1", 14, "exits of 4 handlers + 3 fresh-wrap obligations + _process_wrap_node counts")


# ---------------------------------------------------------------------------
# R4 from/to roles


class DocKinds:
    """Kinds of docname-valued expressions: FROM (referencing page), TO (target page), TARGET (raw reftarget), ID."""

    REG_ATTRS = ("objects", "anonlabels", "labels")

    def __init__(self, corpus: Corpus):
        self.c = corpus
        self.g = get_callgraph(corpus)

    def kind(self, e: ast.expr, fi: FunctionInfo, depth: int = 0, pos=None) -> set[str]:
        if depth > 8:
            return {"?"}
        m = fi.module
        # tuple element of a registry lookup
        if pos is not None:
            if pos == "iter" or pos == "with" or pos == "*":
                return {"?"}
            if isinstance(e, ast.Tuple) and isinstance(pos, int) and pos < len(e.elts):
                return self.kind(e.elts[pos], fi, depth + 1)
            reg = None
            for n in ast.walk(e):
                if isinstance(n, ast.Attribute) and n.attr in self.REG_ATTRS:
                    reg = n.attr
            if reg and isinstance(e, (ast.Subscript, ast.Call)):
                return {"TO"} if pos == 0 else ({"ID"} if pos == 1 else {"TEXT"})
            if isinstance(e, ast.Subscript) and isinstance(e.value, ast.Name):
                # slug tuple (line, id, title) out of the myst_slugs mapping
                defs = assignments_to(fi, e.value.id)
                if defs and all(any(isinstance(x, ast.Constant) and x.value == "myst_slugs" for x in ast.walk(v)) for _, v, _ in defs):
                    return {"ID"} if pos == 1 else {"TEXT"}
            return {"?"}
        if isinstance(e, ast.Constant):
            return {"CONST"}
        if isinstance(e, ast.Call):
            full = m.resolve(dotted(e.func) or "")
            if full.endswith("docname_join"):
                return {"TO"}
            if full in ("posixpath.dirname", "os.path.dirname") and e.args:
                return self.kind(e.args[0], fi, depth + 1)
            if full in ("posixpath.normpath", "os.path.normpath", "posixpath.join", "os.path.join"):
                # hand-rolled docname arithmetic instead of sphinx.util.docname_join
                subk: set[str] = set()
                for a in e.args:
                    subk |= self.kind(a, fi, depth + 1)
                subk -= {"CONST"}
                if "?" in subk or not subk:
                    return {"?"}
                if subk & {"TARGET", "TO", "TO-NOROOT"}:
                    if "TO-NOROOT" in subk or not self._root_handled(e, fi):
                        # an enclosing call may still strip the leading separator
                        return {"TO-NOROOT"} if not self._stripped_above(e) else {"TO"}
                    return {"TO"}
                return subk
            if dotted(e.func) in ("cast", "typing.cast", "t.cast") and len(e.args) == 2:
                return self.kind(e.args[1], fi, depth + 1)
            f = e.func
            if isinstance(f, ast.Attribute) and f.attr == "get" and e.args and isinstance(e.args[0], ast.Constant):
                key = e.args[0].value
                if key == "refdoc":
                    return {"FROM"}
                if key == "reftarget":
                    return {"TARGET"}
                if key == "reftargetid":
                    return {"ID"}
            if isinstance(f, ast.Attribute) and f.attr == "path2doc":
                return {"TO"}
            if isinstance(f, ast.Attribute) and f.attr in ("lower", "strip") and not e.args:
                return self.kind(f.value, fi, depth + 1)
            if isinstance(f, ast.Attribute) and f.attr in ("replace", "lstrip", "removeprefix", "rstrip", "removesuffix"):
                kd = self.kind(f.value, fi, depth + 1)
                if f.attr in ("lstrip", "removeprefix") and e.args and self._is_sep(e.args[0], fi):
                    kd = {("TO" if x == "TO-NOROOT" else x) for x in kd}
                return kd
            return {"?"}
        if isinstance(e, ast.Subscript) and isinstance(e.slice, ast.Slice):
            kd = self.kind(e.value, fi, depth + 1)
            if isinstance(e.slice.lower, ast.Constant) and e.slice.lower.value == 1 and e.slice.upper is None:
                kd = {("TO" if x == "TO-NOROOT" else x) for x in kd}  # [1:] drops the leading separator
            return kd
        if isinstance(e, ast.Subscript) and isinstance(e.slice, ast.Constant):
            key = e.slice.value
            if key == "refdoc":
                return {"FROM"}
            if key == "reftarget":
                return {"TARGET"}
            if key == "reftargetid":
                return {"ID"}
            return {"?"}
        if isinstance(e, ast.Attribute):
            d = dotted(e) or ""
            if d.endswith("env.docname"):
                return {"FROM"}
            return {"?"}
        if isinstance(e, ast.BoolOp):
            out = set()
            for v in e.values:
                out |= self.kind(v, fi, depth + 1)
            return out
        if isinstance(e, ast.BinOp) and isinstance(e.op, ast.Add):
            out = (self.kind(e.left, fi, depth + 1) | self.kind(e.right, fi, depth + 1)) - {"CONST"}
            return out or {"CONST"}
        if isinstance(e, ast.JoinedStr):
            out = set()
            for v in e.values:
                if isinstance(v, ast.FormattedValue):
                    out |= self.kind(v.value, fi, depth + 1)
            return out or {"CONST"}
        if isinstance(e, ast.IfExp):
            return self.kind(e.body, fi, depth + 1) | self.kind(e.orelse, fi, depth + 1)
        if isinstance(e, ast.Name):
            defs = assignments_to(fi, e.id)
            out: set[str] = set()
            for _, val, p in defs:
                out |= self.kind(val, fi, depth + 1, pos=p)
            owner = fi
            while owner is not None and e.id not in owner.params:
                owner = owner.parent_func
            if owner is not None:
                # default value
                out |= self._param_kind(owner, e.id, depth)
            if not out:
                return {"?"}
            return out
        return {"?"}

    @staticmethod
    def _is_sep(a: ast.expr, fi: FunctionInfo) -> bool:
        if isinstance(a, ast.Constant) and a.value == "/":
            return True
        d = dotted(a) or ""
        return d.split(".")[-1] in ("SEP", "sep")

    def _stripped_above(self, e: ast.AST) -> bool:
        """The computed path is immediately passed through `[1:]` / lstrip('/') / removeprefix('/')."""
        child, p = e, parent(e)
        while isinstance(p, (ast.Call, ast.Attribute, ast.Subscript)):
            if isinstance(p, ast.Subscript) and p.value is child and isinstance(p.slice, ast.Slice) and isinstance(p.slice.lower, ast.Constant) and p.slice.lower.value == 1:
                return True
            if isinstance(p, ast.Call) and isinstance(p.func, ast.Attribute) and p.func.value is child and False:
                return True
            if isinstance(p, ast.Attribute) and p.value is child and p.attr in ("lstrip", "removeprefix"):
                gp = parent(p)
                if isinstance(gp, ast.Call) and gp.args and self._is_sep(gp.args[0], None):
                    return True
            child, p = p, parent(p)
        return False

    def _root_handled(self, e: ast.AST, fi: FunctionInfo) -> bool:
        """The code around a hand-rolled join treats a target with a leading '/' (relative to the source root):
        either the join prefixes the base with the separator (as docname_join does, result then stripped), or a
        startswith('/') test on the target splits the cases."""
        for n in fi.local_nodes():
            if isinstance(n, ast.Call) and isinstance(n.func, ast.Attribute) and n.func.attr == "startswith" and n.args and self._is_sep(n.args[0], fi):
                if self.kind(n.func.value, fi, 6) & {"TARGET"}:
                    return True
        return False

    def _param_kind(self, owner: FunctionInfo, name: str, depth: int) -> set[str]:
        out: set[str] = set()
        idx = owner.params.index(name)
        shift = 1 if owner.params and owner.params[0] in ("self", "cls") else 0
        sites = self.g.callers().get(owner.fq, [])
        n = 0
        for cfi, call in sites:
            arg = None
            p = idx - shift
            if 0 <= p < len(call.args) and not any(isinstance(a, ast.Starred) for a in call.args[: p + 1]):
                arg = call.args[p]
            for kw in call.keywords:
                if kw.arg == name:
                    arg = kw.value
            if arg is None:
                continue  # default value in use
            n += 1
            out |= self.kind(arg, cfi, depth + 1)
        if n == 0:
            return set() if assignments_to(owner, name) else {"?"}
        return out


# (resolved callee suffix or method name) -> {slot name: (positional index, keyword, accepted kinds, forbidden kinds)}
ROLE_SITES = {
    "make_refnode": {"from": (1, "fromdocname"), "to": (2, "todocname")},
    "docname_join": {"from": (0, "basedocname"), "target": (1, "docname")},
    "resolve_any_xref": {"from": (1, "fromdocname"), "target": (3, "target")},
    "resolve_xref": {"from": (1, "fromdocname"), "target": (4, "target")},
}
SLOT_ACCEPT = {"from": {"FROM"}, "to": {"TO", "TARGET"}, "target": {"TARGET"}}
SLOT_WHY = {
    "from": "the page the link is written on (refdoc); Sphinx computes the relative URI from it",
    "to": "the page the link points to (reftarget docname / registry docname)",
    "target": "the raw link destination (reftarget)",
}


@rule("C12.R4")
def r4_from_to_roles(corpus: Corpus, rep: Report, tier: str):
    rep.rule("C12.R4", "make_refnode/docname_join/resolve_(any_)xref: the 'from' slot derives from refdoc, the 'to'/'target' slot from reftarget or a registry docname")
    dk = DocKinds(corpus)
    ci = corpus.cls(RESOLVER)
    n_sites = 0
    for m in ci.methods.values():
        for call in [c for c in m.local_nodes() if isinstance(c, ast.Call)]:
            full = m.module.resolve(dotted(call.func) or "")
            name = None
            if full == "sphinx.util.nodes.make_refnode":
                name = "make_refnode"
            elif full == "sphinx.util.docname_join":
                name = "docname_join"
            elif isinstance(call.func, ast.Attribute) and call.func.attr in ("resolve_any_xref", "resolve_xref") and not (isinstance(call.func.value, ast.Name) and call.func.value.id == "self"):
                name = call.func.attr
            if name is None:
                continue
            n_sites += 1
            rep.saw_call(m.module.site(call))
            rep.saw_function(m.fq)
            for slot, (idx, kw) in ROLE_SITES[name].items():
                arg = call_arg(call, idx, kw)
                k = f"{m.fq}|{name}|{slot} slot|{short(arg, 40) if arg is not None else '-'}"
                site = m.module.site(call)
                if arg is None:
                    rep.error("C12.R4", f"{m.qualname}: {name} call without a {slot} argument")
                    continue
                kinds = dk.kind(arg, m)
                acc = SLOT_ACCEPT[slot]
                if "?" in kinds:
                    rep.error("C12.R4", f"{m.qualname}: cannot trace `{unparse(arg)}` in the {slot} slot of {name} (kinds {sorted(kinds)})")
                elif "TO-NOROOT" in kinds:
                    rep.violation(
                        "C12.R4",
                        k,
                        site,
                        f"`{unparse(arg)}` is computed from the raw link target with posixpath/os.path join+normpath instead of sphinx.util.docname_join, and nothing strips or tests a leading '/': a root-relative destination such as `[x](/folder/doc)` keeps its leading separator, is never found in env.all_docs and no longer resolves relative to the source root",
                    )
                elif kinds <= acc | {"CONST"} and kinds & acc:
                    rep.ok("C12.R4", k, site, f"{unparse(arg)}: {sorted(kinds)}")
                else:
                    rep.violation(
                        "C12.R4",
                        k,
                        site,
                        f"`{unparse(arg)}` in the {slot} slot of {name} derives from {sorted(kinds - {'CONST'})}, expected {sorted(acc)} - {SLOT_WHY[slot]}: links between pages in different directories get the wrong relative URI",
                    )
    # the docname fallback of the generic resolver is handed the destination as written, '#fragment' included
    for m in ci.methods.values():
        for call in [c for c in m.local_nodes() if isinstance(c, ast.Call) and m.module.resolve(dotted(c.func) or "") == "sphinx.util.docname_join"]:
            tgt = call_arg(call, 1, "docname")
            if tgt is None:
                continue
            k = f"{m.fq}|docname_join|the target has its '#fragment' split off"
            split = False
            x = tgt
            seen_n = 0
            while x is not None and seen_n < 6:
                seen_n += 1
                if any(isinstance(y, ast.Call) and isinstance(y.func, ast.Attribute) and y.func.attr in ("split", "partition", "rsplit", "rpartition") and y.args and isinstance(y.args[0], ast.Constant) and y.args[0].value == "#" for y in ast.walk(x)):
                    split = True
                    break
                if isinstance(x, ast.Name):
                    dd = assignments_to(m, x.id)
                    x = dd[0][1] if len(dd) == 1 else None
                else:
                    break
            if split:
                rep.ok("C12.R4", k, m.module.site(call), unparse(tgt))
            else:
                rep.violation("C12.R4", k, m.module.site(call), f"`{unparse(tgt)}` is the destination as written (R5: a non-doc reference keeps the whole destination), so `[](../sub/t#heading)` - a document named without its extension plus a heading anchor - is looked up as the docname 'sub/t#heading' and reported missing, although `[](../sub/t)` and `[](../sub/t.md#heading)` resolve")
    # the refdoc written by the renderer is the current docname
    for fi, call, keys, dom in _writers(corpus):
        v = keys.get("refdoc")
        k = f"{fi.fq}|pending_xref(refdomain={dom})|refdoc is the current docname"
        if v is None:
            rep.listed("C12.R4", k, fi.module.site(call), "no refdoc: the resolver falls back to env.docname")
            continue
        kinds = dk.kind(v, fi)
        if kinds == {"FROM"}:
            rep.ok("C12.R4", k, fi.module.site(call), unparse(v))
        elif "?" in kinds:
            rep.error("C12.R4", f"{fi.qualname}: cannot trace refdoc=`{unparse(v)}`")
        else:
            rep.violation("C12.R4", k, fi.module.site(call), f"refdoc=`{unparse(v)}` is not the current docname (kinds {sorted(kinds)})")
    if n_sites < 6:
        rep.error("C12.R4", f"only {n_sites} role sites found (8 on the pinned tree)")
    rep.expect_min("C12.R4", 14, "5 make_refnode x2 + docname_join x2 + 2 domain resolver calls x2 + writers' refdoc")


# ---------------------------------------------------------------------------
# R5 writer/reader agreement


def _ctor_keys(fi: FunctionInfo, call: ast.Call) -> dict[str, ast.expr]:
    """Keyword arguments of a node constructor, `**name` expanded when `name` is one dict literal."""
    keys: dict[str, ast.expr] = {}
    for kw in call.keywords:
        if kw.arg is not None:
            keys[kw.arg] = kw.value
        else:
            if not isinstance(kw.value, ast.Name):
                raise Unsupported(f"{fi.qualname}: `**{unparse(kw.value)}` in a node constructor")
            defs = assignments_to(fi, kw.value.id)
            if len(defs) != 1 or not isinstance(defs[0][1], ast.Dict) or defs[0][2] is not None:
                raise Unsupported(f"{fi.qualname}: `**{kw.value.id}` is not a single dict literal")
            mutated = [n for n in fi.local_nodes() if isinstance(n, ast.Subscript) and isinstance(n.value, ast.Name) and n.value.id == kw.value.id and isinstance(n.ctx, (ast.Store, ast.Del))]
            if mutated:
                raise Unsupported(f"{fi.qualname}: `{kw.value.id}` is modified after its literal")
            for kk, vv in zip(defs[0][1].keys, defs[0][1].values):
                if not (isinstance(kk, ast.Constant) and isinstance(kk.value, str)):
                    raise Unsupported(f"{fi.qualname}: non-literal key in `{kw.value.id}`")
                keys.setdefault(kk.value, vv)
    return keys


def _reaching(fi: FunctionInfo, name: str, at) -> list[tuple[ast.stmt, ast.expr, object]]:
    """Bindings of ``name`` that reach the CFG statement ``at`` (flow-sensitive)."""
    cfg = get_cfg(fi)
    defs = [(cfg.stmt_of(st), val, pos) for st, val, pos in assignments_to(fi, name) if st is not None]
    out = []
    for d, val, pos in defs:
        if d is at:
            continue
        others = [o for o, _, _ in defs if o is not d and o is not at]
        if cfg.paths_avoiding(d, at, lambda n: any(n is o for o in others)):
            out.append((d, val, pos))
    return out


DECODERS = {"unquote": "urllib.parse.unquote: complete percent-decoding", "unquote_to_bytes": "complete"}
PARTIAL_DECODERS = {"normalizeLinkText": "markdown-it's display helper: leaves reserved characters (%25, %23, %2F ...) percent-encoded"}


def _encoding(fi: FunctionInfo, e: ast.AST | None, at, busy: frozenset = frozenset(), env: dict | None = None) -> set[str]:
    """Does the value derive from the token's href RAW (still percent-encoded by markdown-it's normalizeLink),
    PARTIALly decoded (normalizeLinkText, meant for display: reserved characters stay encoded) or DECoded
    (urllib.parse.unquote)?  Flow-sensitive over local bindings, follows private helpers of the module
    (parameters bound to the caller's kinds, tuple results element-wise); unknown leaves contribute nothing."""
    if e is None or len(busy) > 14:
        return set()
    if isinstance(e, ast.Call):
        nm = e.func.attr if isinstance(e.func, ast.Attribute) else (e.func.id if isinstance(e.func, ast.Name) else "")
        if nm in DECODERS:
            return {"DEC"}
        if nm in PARTIAL_DECODERS:
            return {"PARTIAL"}
        if nm == "attrGet" and e.args and isinstance(e.args[0], ast.Constant) and e.args[0].value == "href":
            return {"RAW"}
    if isinstance(e, ast.Subscript) and isinstance(e.slice, ast.Constant) and e.slice.value == "href" and isinstance(e.value, ast.Attribute) and e.value.attr == "attrs":
        return {"RAW"}
    if isinstance(e, ast.Name):
        key = (fi.fq, e.id, id(at))
        if key in busy:
            return set()
        out: set[str] = set()
        cfg = get_cfg(fi)
        reaching = _reaching(fi, e.id, at)
        for d, val, pos in reaching:
            if isinstance(pos, int) and isinstance(val, ast.Call):
                els = _helper_element_encoding(fi, val, d, busy | {key}, env)
                if els is not None and pos < len(els):
                    out |= els[pos]
                    continue
            if isinstance(pos, int) and isinstance(val, (ast.Tuple, ast.List)) and pos < len(val.elts):
                out |= _encoding(fi, val.elts[pos], d, busy | {key}, env)
                continue
            out |= _encoding(fi, val, d, busy | {key}, env)
        if env is not None and e.id in env:
            # a parameter: its entry value reaches unless every path rebinds it first
            dstmts = [cfg.stmt_of(st) for st, _, _ in assignments_to(fi, e.id) if st is not None]
            if not dstmts or cfg.paths_avoiding(ENTRY, at, lambda n: any(n is d for d in dstmts if d is not at)):
                out |= env[e.id]
        return out
    if isinstance(e, ast.IfExp):
        return _encoding(fi, e.body, at, busy, env) | _encoding(fi, e.orelse, at, busy, env)
    if isinstance(e, ast.Compare):
        return set()
    out = set()
    if isinstance(e, ast.Call):
        els = _helper_element_encoding(fi, e, at, busy, env)
        if els is not None:
            for x in els:
                out |= x
            return out
        subs = list(e.args) + [k.value for k in e.keywords]
        if isinstance(e.func, ast.Attribute) and not (isinstance(e.func.value, ast.Name) and e.func.value.id in ("self", "cls", "os", "nodes", "posixpath")):
            subs.append(e.func.value)
    else:
        subs = list(ast.iter_child_nodes(e))
    for c in subs:
        if isinstance(c, ast.expr):
            out |= _encoding(fi, c, at, busy, env)
    return out


def _helper_element_encoding(fi: FunctionInfo, call: ast.Call, at, busy: frozenset, env: dict | None) -> list[set[str]] | None:
    """Kinds of the (tuple) result of a private helper of the module, element by element."""
    lc = _local_callee(fi, call)
    if lc is None or len(busy) > 10:
        return None
    callee, ci = lc
    if callee.is_lambda or ("call", callee.fq) in busy:
        return None
    params = callee.params
    shift = 1 if params and params[0] in ("self", "cls") and not (isinstance(call.func, ast.Attribute) and isinstance(call.func.value, ast.Name) and call.func.value.id in fi.module.classes and "staticmethod" in callee.decorators()) else 0
    if "staticmethod" in callee.decorators():
        shift = 0
    env2: dict[str, set[str]] = {}
    for i, a in enumerate(call.args):
        if isinstance(a, ast.Starred) or i + shift >= len(params):
            return None
        env2[params[i + shift]] = _encoding(fi, a, at, busy, env)
    for kw in call.keywords:
        if kw.arg is None or kw.arg not in params:
            return None
        env2[kw.arg] = _encoding(fi, kw.value, at, busy, env)
    rets = _returned_elements(callee, ci)
    if not rets or len({len(r) for r in rets}) != 1:
        return None
    ccfg = get_cfg(callee)
    n = len(rets[0])
    out: list[set[str]] = [set() for _ in range(n)]
    ret_stmts = [x for x in callee.local_nodes() if isinstance(x, ast.Return) and x.value is not None]
    for r, stmt in zip(rets, ret_stmts):
        for i, el in enumerate(r):
            out[i] |= _encoding(callee, el, ccfg.stmt_of(stmt), busy | {("call", callee.fq)}, env2)
    return out


def _split_receivers(fi: FunctionInfo) -> list[tuple[ast.Call, ast.expr]]:
    return [(c, c.func.value) for c in fi.local_nodes() if isinstance(c, ast.Call) and isinstance(c.func, ast.Attribute) and c.func.attr in ("split", "partition", "rsplit", "rpartition") and c.args and isinstance(c.args[0], ast.Constant) and c.args[0].value == "#"]


def _writers(corpus: Corpus):
    """Every `addnodes.pending_xref(...)` constructor with reftype='myst' in the package:
    (function, call, {keyword: value expr}, refdomain text)."""

    def compute():
        out = []
        for fi in corpus.all_functions():
            if fi.is_lambda:
                continue
            for call in [c for c in fi.local_nodes() if isinstance(c, ast.Call)]:
                if fi.module.resolve(dotted(call.func) or "") != "sphinx.addnodes.pending_xref":
                    continue
                keys = _ctor_keys(fi, call)
                rt = keys.get("reftype")
                if rt is None or not isinstance(rt, ast.Constant):
                    if rt is not None:
                        raise Unsupported(f"{fi.qualname}: reftype=`{unparse(rt)}` is not a literal")
                    continue
                if rt.value != "myst":
                    continue
                d = keys.get("refdomain")
                if d is None:
                    dom = "<missing>"
                elif isinstance(d, ast.Constant):
                    dom = repr(d.value)
                else:
                    raise Unsupported(f"{fi.qualname}: refdomain=`{unparse(d)}` is not a literal")
                out.append((fi, call, keys, dom))
        return out

    return corpus.cache("c12-writers", compute)


def _reader_attrs(corpus: Corpus, fi: FunctionInfo, var: str, ctx: str, seen: set, out: dict):
    """Collect {(attr, ctx): site} for every `var["attr"]` load reachable through self-calls; ctx in doc/nondoc/any."""
    key = (fi.fq, var, ctx)
    if key in seen:
        return
    seen.add(key)
    cfg = get_cfg(fi)

    def ctx_at(node) -> str:
        c = ctx
        try:
            gs = all_guards(cfg, node)
        except Unsupported:
            return c
        for t, pol in gs:
            if isinstance(t, ast.Compare) and len(t.ops) == 1 and isinstance(t.ops[0], (ast.Eq, ast.NotEq)):
                l, r = local_value(t.left), local_value(t.comparators[0])
                if is_domain_read(r) and isinstance(l, ast.Constant):
                    l, r = r, l
                if is_domain_read(l) and isinstance(r, ast.Constant):
                    eq = pol if isinstance(t.ops[0], ast.Eq) else not pol
                    if r.value == "doc":
                        c = "doc" if eq else "nondoc"
                    elif eq:
                        c = "nondoc"
                    continue
            if any(is_domain_read(local_value(x)) for x in ast.walk(t)):
                raise Unsupported(f"{fi.qualname}: test on refdomain not understood: `{short(t, 60)}`")
        return c

    def local_value(e):
        if isinstance(e, ast.Name):
            defs = assignments_to(fi, e.id)
            if len(defs) == 1 and defs[0][2] is None:
                return defs[0][1]
        return e

    def is_domain_read(e) -> bool:
        if isinstance(e, ast.Subscript) and isinstance(e.value, ast.Name) and e.value.id == var and isinstance(e.slice, ast.Constant) and e.slice.value == "refdomain":
            return True
        if isinstance(e, ast.Call) and isinstance(e.func, ast.Attribute) and e.func.attr == "get" and isinstance(e.func.value, ast.Name) and e.func.value.id == var and e.args and isinstance(e.args[0], ast.Constant) and e.args[0].value == "refdomain":
            return True
        return False

    def has_key_guard(node) -> bool:
        try:
            gs = all_guards(cfg, node)
        except Unsupported:
            return False
        for t, pol in gs:
            if isinstance(t, ast.Compare) and len(t.ops) == 1 and ((pol and isinstance(t.ops[0], ast.In)) or (not pol and isinstance(t.ops[0], ast.NotIn))) and isinstance(t.left, ast.Constant) and t.left.value == node.slice.value and isinstance(t.comparators[0], ast.Name) and t.comparators[0].id == var:
                return True
        return False

    for n in fi.local_nodes():
        if isinstance(n, ast.Subscript) and isinstance(n.value, ast.Name) and n.value.id == var and isinstance(n.slice, ast.Constant) and isinstance(n.slice.value, str) and isinstance(n.ctx, ast.Load):
            if has_key_guard(n):
                continue  # `if "attr" in node:` - an optional read
            out.setdefault((n.slice.value, ctx_at(n)), f"{fi.module.site(n)} ({fi.qualname})")
        elif isinstance(n, ast.Call):
            callee = self_callee(corpus, fi, n)
            if callee is not None:
                p = param_of_arg(callee, n, var)
                if p is not None:
                    _reader_attrs(corpus, callee, p, ctx_at(n), seen, out)


def _local_callee(fi: FunctionInfo, call: ast.Call) -> tuple[FunctionInfo, object] | None:
    """(function, owning class or None) for calls of module functions, `Class.method`, `self.method`, `cls.method`
    defined in the same module (no corpus needed)."""
    m = fi.module
    f = call.func
    if isinstance(f, ast.Name) and f.id in m.functions and not assignments_to(fi, f.id):
        return m.functions[f.id], None
    if isinstance(f, ast.Attribute) and isinstance(f.value, ast.Name):
        ci = None
        if f.value.id in ("self", "cls"):
            o = fi
            while o is not None and o.cls is None:
                o = o.parent_func
            ci = o.cls if o is not None else None
        elif f.value.id in m.classes:
            ci = m.classes[f.value.id]
        if ci is not None and f.attr in ci.methods:
            return ci.methods[f.attr], ci
    return None


def _class_fields(ci) -> list[str]:
    return [st.target.id for st in ci.node.body if isinstance(st, ast.AnnAssign) and isinstance(st.target, ast.Name)]


def _returned_elements(callee: FunctionInfo, ci) -> list[list[ast.expr]] | None:
    """Per return statement, the element expressions of the returned tuple / NamedTuple / dataclass instance."""
    out = []
    for n in callee.local_nodes():
        if not isinstance(n, ast.Return) or n.value is None:
            continue
        v = n.value
        if isinstance(v, ast.Tuple):
            out.append(list(v.elts))
        elif isinstance(v, ast.Call) and isinstance(v.func, ast.Name) and (v.func.id == "cls" or v.func.id in callee.module.classes):
            cls_ci = ci if v.func.id == "cls" else callee.module.classes[v.func.id]
            fields = _class_fields(cls_ci) if cls_ci is not None else []
            elts = list(v.args)
            for kw in v.keywords:
                if kw.arg is None or kw.arg not in fields or fields.index(kw.arg) != len(elts):
                    return None
                elts.append(kw.value)
            out.append(elts)
        else:
            out.append([v])
    return out or None


def _helper_element_parts(fi: FunctionInfo, call: ast.Call, depth: int) -> tuple[list[set[str]], object] | None:
    lc = _local_callee(fi, call)
    if lc is None or depth > 18:
        return None
    callee, ci = lc
    rets = _returned_elements(callee, ci)
    if not rets or len({len(r) for r in rets}) != 1:
        return None
    n = len(rets[0])
    parts: list[set[str]] = [set() for _ in range(n)]
    for r in rets:
        for i, el in enumerate(r):
            parts[i] |= _hash_part(callee, el, depth + 1)
    # the class whose instance is returned (for attribute access by field name)
    ret_cls = None
    for node in callee.local_nodes():
        if isinstance(node, ast.Return) and isinstance(node.value, ast.Call) and isinstance(node.value.func, ast.Name):
            ret_cls = ci if node.value.func.id == "cls" else callee.module.classes.get(node.value.func.id)
    return parts, ret_cls


def _hash_part(fi: FunctionInfo, e: ast.expr | None, depth: int = 0, busy: frozenset = frozenset()) -> set[str]:
    """Which part of the link destination an expression holds: PATH (before '#'), ID (after '#'),
    WHOLE (unsplit href), NONE/CONST, or ? (not understood). SPLIT/IDLIST are intermediate."""
    if e is None or depth > 24:
        return {"?"}
    if isinstance(e, ast.Constant):
        return {"NONE"} if e.value is None else {"CONST"}
    if isinstance(e, ast.IfExp):
        b, o = _hash_part(fi, e.body, depth + 1, busy), _hash_part(fi, e.orelse, depth + 1, busy)
        # `path if fragment is None else f"{path}#{fragment}"`: without a fragment the path IS the whole destination
        t = e.test
        neg = False
        while isinstance(t, ast.UnaryOp) and isinstance(t.op, ast.Not):
            t, neg = t.operand, not neg
        absent_in_body = None
        if isinstance(t, ast.Compare) and len(t.ops) == 1 and isinstance(t.comparators[0], ast.Constant) and t.comparators[0].value is None and isinstance(t.ops[0], (ast.Is, ast.IsNot)):
            if _hash_part(fi, t.left, depth + 1, busy) <= {"ID", "NONE"}:
                absent_in_body = isinstance(t.ops[0], ast.Is) != neg
        elif isinstance(t, ast.Name) and _hash_part(fi, t, depth + 1, busy) <= {"ID", "NONE"}:
            absent_in_body = neg
        if absent_in_body is True and b == {"PATH"}:
            b = {"WHOLE"}
        if absent_in_body is False and o == {"PATH"}:
            o = {"WHOLE"}
        return b | o
    if isinstance(e, (ast.JoinedStr, ast.BinOp)):
        # "{path}#{fragment}" / path + "#" + fragment: the destination put together again
        parts: list = []
        if isinstance(e, ast.JoinedStr):
            parts = [v.value if isinstance(v, ast.FormattedValue) else v for v in e.values]
        else:
            def flat(x):
                if isinstance(x, ast.BinOp) and isinstance(x.op, ast.Add):
                    flat(x.left)
                    flat(x.right)
                else:
                    parts.append(x)
            flat(e)
        kinds = [_hash_part(fi, x, depth + 1, busy) for x in parts]
        has_sep = any(isinstance(x, ast.Constant) and isinstance(x.value, str) and "#" in x.value for x in parts)
        flatk = [k for k in kinds if k != {"CONST"}]
        if has_sep and len(flatk) == 2 and flatk[0] == {"PATH"} and flatk[1] <= {"ID", "NONE"} and "ID" in flatk[1]:
            return {"WHOLE"}
        if len(flatk) == 1:
            return flatk[0]
        return {"?"} if flatk else {"CONST"}
    if isinstance(e, ast.BoolOp):
        out: set[str] = set()
        for v in e.values:
            out |= _hash_part(fi, v, depth + 1, busy)
        return (out - {"CONST"}) or ({"CONST"} if out else set())
    if isinstance(e, ast.Call) and isinstance(e.func, ast.Attribute) and e.func.attr == "attrGet" and e.args and isinstance(e.args[0], ast.Constant) and e.args[0].value == "href":
        return {"WHOLE"}
    if isinstance(e, ast.Call) and isinstance(e.func, ast.Attribute) and e.func.attr in ("split", "rsplit", "partition", "rpartition") and e.args and isinstance(e.args[0], ast.Constant) and e.args[0].value == "#":
        return {"SPLIT"} if e.func.attr in ("split", "partition") else {"?"}
    if isinstance(e, ast.Subscript):
        inner = _hash_part(fi, e.value, depth + 1, busy)
        if isinstance(e.slice, ast.Constant) and isinstance(e.slice.value, int):
            if inner == {"IDLIST"}:
                return {"ID"}
            if inner == {"SPLIT"}:
                is_part = isinstance(e.value, ast.Call) and e.value.func.attr == "partition"
                if e.slice.value == 0:
                    return {"PATH"}
                return {"ID"} if (e.slice.value == 2 if is_part else e.slice.value == 1) else {"?"}
            return {"?"}
        if isinstance(e.slice, ast.Slice) and inner <= {"WHOLE", "PATH", "ID"}:
            return inner  # prefix stripping such as destination[8:]
        return {"?"}
    if isinstance(e, ast.Attribute) and isinstance(e.value, ast.Name) and e.value.id not in ("self", "cls"):
        # field of a NamedTuple / small record returned by a splitting helper
        defs = assignments_to(fi, e.value.id)
        out = set()
        for _, val, pos in defs:
            hp = _helper_element_parts(fi, val, depth) if (pos is None and isinstance(val, ast.Call)) else None
            if hp is None or hp[1] is None or e.attr not in _class_fields(hp[1]):
                return {"?"}
            out |= hp[0][_class_fields(hp[1]).index(e.attr)]
        return out or {"?"}
    if isinstance(e, ast.Name):
        if e.id in busy:
            return set()  # `x = x or None`: the self-reference adds nothing
        defs = assignments_to(fi, e.id)
        if not defs:
            return {"?"}
        out = set()
        for _, val, pos in defs:
            if isinstance(pos, int) and isinstance(val, ast.Call):
                hp = _helper_element_parts(fi, val, depth)
                if hp is not None and pos < len(hp[0]):
                    out |= hp[0][pos]
                    continue
            inner = _hash_part(fi, val, depth + 1, busy | {e.id})
            if pos is None:
                out |= inner
            elif pos == "*":
                out |= {"IDLIST"} if inner == {"SPLIT"} else {"?"}
            elif isinstance(pos, int) and inner == {"SPLIT"}:
                is_part = isinstance(val, ast.Call) and val.func.attr == "partition"
                out |= {"PATH"} if pos == 0 else ({"ID"} if (not is_part or pos == 2) else {"?"})
            else:
                out |= {"?"}
        return out
    if isinstance(e, ast.Call):
        # string transformations (normalizeLinkText, cast, str, os.path.*, _handle_relative_docs) keep the part
        subs: set[str] = set()
        for a in list(e.args) + [k.value for k in e.keywords]:
            subs |= _hash_part(fi, a, depth + 1, busy)
        if isinstance(e.func, ast.Attribute) and not isinstance(e.func.value, ast.Name) and (dotted(e.func.value) or "").split(".")[0] not in ("self", "cls", "os", "posixpath"):
            subs |= _hash_part(fi, e.func.value, depth + 1, busy)
        elif isinstance(e.func, ast.Attribute) and isinstance(e.func.value, ast.Name) and assignments_to(fi, e.func.value.id):
            subs |= _hash_part(fi, e.func.value, depth + 1, busy)
        known = subs - {"?", "CONST", "NONE"}
        if known:
            return known
        return {"?"} if subs else set()  # nothing but self-references: adds nothing
    return {"?"}


def _derives_from_call(fi: FunctionInfo, e: ast.expr, attr: str, depth: int = 0, truthy: frozenset = frozenset()) -> bool:
    """Every binding of the value comes out of a call of ``attr``.  Names in ``truthy`` are known to be truthy at
    the use, so their falsy-constant bindings (`x = None` in an except branch, an initialiser) cannot reach it."""
    if depth > 6:
        return False
    for n in ast.walk(e):
        if isinstance(n, ast.Call) and isinstance(n.func, ast.Attribute) and n.func.attr == attr:
            return True
    if isinstance(e, ast.Name):
        vals = []
        for _, v, pos in assignments_to(fi, e.id):
            if isinstance(pos, int) and isinstance(v, (ast.Tuple, ast.List)) and pos < len(v.elts) and not any(isinstance(x, ast.Starred) for x in v.elts):
                v = v.elts[pos]  # a, b = x, y
            if e.id in truthy and isinstance(v, ast.Constant) and not v.value:
                continue
            vals.append(v)
        return bool(vals) and all(_derives_from_call(fi, v, attr, depth + 1, truthy) for v in vals)
    return False


def _truthy_names_at(fi: FunctionInfo, node: ast.AST) -> frozenset:
    cfg = get_cfg(fi)
    try:
        gs = all_guards(cfg, node)
    except Unsupported:
        return frozenset()
    out = set()
    for t, pol in gs:
        if pol and isinstance(t, ast.Name):
            out.add(t.id)
        elif pol and isinstance(t, ast.Compare) and len(t.ops) == 1 and isinstance(t.ops[0], ast.IsNot) and isinstance(t.left, ast.Name) and isinstance(t.comparators[0], ast.Constant) and t.comparators[0].value is None:
            out.add(t.left.id)
    return frozenset(out)


def _param_encodings(rcls, m: FunctionInfo) -> dict[str, set[str]]:
    """Kinds (RAW/PARTIAL/DEC) of the parameters of a helper method, from what the other methods of the class pass."""
    envp: dict[str, set[str]] = {}
    for prm in m.params:
        kinds: set[str] = set()
        for other in rcls.methods.values():
            if other.fq == m.fq:
                continue
            for cc in [x for x in other.local_nodes() if isinstance(x, ast.Call)]:
                lc = _local_callee(other, cc)
                if lc is not None and lc[0].fq == m.fq:
                    pn = param_of_arg_expr(m, cc, prm)
                    if pn is not None:
                        kinds |= _encoding(other, pn, get_cfg(other).stmt_of(cc))
        if kinds:
            envp[prm] = kinds
    return envp


@rule("C12.R5")
def r5_writer_reader_agreement(corpus: Corpus, rep: Report, tier: str):
    rep.rule("C12.R5", "every attribute the resolver subscripts on a 'myst' pending_xref is set by every constructor with the matching refdomain; doc links: reftarget from path2doc, reftargetid = part after '#'; non-doc reftarget = whole destination; href-derived values are percent-decoded")
    sh = _shape(corpus)
    readers: dict[tuple[str, str], str] = {}
    _reader_attrs(corpus, sh.run, sh.var, "any", set(), readers)
    if not any(a == "reftype" for a, _ in readers):
        raise Unsupported(f"reader set of the resolver not understood: {sorted(readers)}")
    for (a, c), site in sorted(readers.items()):
        rep.listed("C12.R5", f"reader|{a}|{c}", site, "subscripted (KeyError if the writer omits it)")
    writers = _writers(corpus)
    if len(writers) < 3:
        rep.error("C12.R5", f"only {len(writers)} 'myst' pending_xref constructor(s) found (4 on the pinned tree)")
    for fi, call, keys, dom in writers:
        rep.saw_function(fi.fq)
        rep.saw_call(fi.module.site(call))
        ctxs = ("doc", "any") if dom == "'doc'" else ("nondoc", "any")
        required = sorted({a for (a, c) in readers if c in ctxs})
        for a in required:
            k = f"{fi.fq}|pending_xref(refdomain={dom})|sets {a}"
            if a in keys:
                rep.ok("C12.R5", k, fi.module.site(call))
            else:
                where = [s for (aa, c), s in readers.items() if aa == a and c in ctxs][0]
                rep.violation("C12.R5", k, fi.module.site(call), f"the constructor does not set `{a}`, but the resolver reads node[{a!r}] at {where}: KeyError aborts the build for this link")
        if dom == "'doc'":
            k = f"{fi.fq}|pending_xref(refdomain='doc')|reftarget is the docname from path2doc"
            v = keys.get("reftarget")
            if v is not None:
                if _derives_from_call(fi, v, "path2doc", truthy=_truthy_names_at(fi, call)):
                    rep.ok("C12.R5", k, fi.module.site(call), unparse(v))
                else:
                    rep.violation("C12.R5", k, fi.module.site(call), f"reftarget=`{unparse(v)}` does not derive from env.path2doc(...): the resolver looks it up in env.all_docs, which is keyed by docname")
            k = f"{fi.fq}|pending_xref(refdomain='doc')|reftargetid is the part after '#'"
            v = keys.get("reftargetid")
            if v is not None:
                parts = _hash_part(fi, v)
                if "?" in parts:
                    rep.error("C12.R5", f"{fi.qualname}: cannot trace reftargetid=`{unparse(v)}` ({sorted(parts)})")
                elif parts <= {"ID", "NONE"} and "ID" in parts:
                    rep.ok("C12.R5", k, fi.module.site(call), unparse(v))
                else:
                    rep.violation("C12.R5", k, fi.module.site(call), f"reftargetid=`{unparse(v)}` is {sorted(parts)}, not the part of the destination after '#': heading anchors of doc links are lost or wrong")
    # non-doc references keep the whole destination (nothing after '#' may be dropped before the resolver sees it)
    for fi, call, keys, dom in writers:
        if dom == "'doc'" or not any(_encoding(fi, v, get_cfg(fi).stmt_of(call)) for v in [keys.get("reftarget")] if v is not None):
            continue  # only where the value comes from a link token's href
        v = keys["reftarget"]
        k = f"{fi.fq}|pending_xref(refdomain={dom})|reftarget is the whole destination"
        parts = _hash_part(fi, v)
        if "?" in parts:
            rep.error("C12.R5", f"{fi.qualname}: cannot trace reftarget=`{unparse(v)}` ({sorted(parts)})")
        elif parts == {"WHOLE"}:
            rep.ok("C12.R5", k, fi.module.site(call), unparse(v))
        else:
            rep.violation("C12.R5", k, fi.module.site(call), f"reftarget=`{unparse(v)}` is {sorted(parts)} of the destination, not the whole destination: the '#fragment' of a reference that is not an existing file is dropped before resolution (`[x](other#sec)` silently resolves to the page, or to another label)")
    # every destination-derived attribute is percent-decoded (normalizeLinkText) before it is compared with registries
    n_enc = 0
    rcls = corpus.cls(SPHINX_R)
    for m in rcls.methods.values():
        for call in [c for c in m.local_nodes() if isinstance(c, ast.Call)]:
            ctor = _wrap_ctor(call, m)
            sinks: list[tuple[str, ast.expr]] = []
            if ctor:
                keys = _ctor_keys(m, call)
                sinks = [(f"{ctor}|{a}", keys[a]) for a in ("reftarget", "reftargetid") if a in keys]
            elif isinstance(call.func, ast.Attribute) and call.func.attr == "relfn2path" and call.args:
                sinks = [("relfn2path|filename", call.args[0])]
            at = get_cfg(m).stmt_of(call) if sinks else None
            for label, v in sinks:
                enc = _encoding(m, v, at, frozenset(), _param_encodings(rcls, m) or None)
                if not enc:
                    continue  # not derived from the href (e.g. a docname)
                n_enc += 1
                dk = unparse(keys["refdomain"]) if ctor and "refdomain" in keys else "-"
                k = f"{m.fq}|{label}|refdomain={dk}|percent-decoded"
                if "RAW" in enc:
                    rep.violation("C12.R5", k, m.module.site(call), f"`{unparse(v)}` reaches {label.replace('|', '.')} from token.attrGet('href') without being percent-decoded (urllib.parse.unquote): markdown-it percent-encodes the href, so a non-ASCII heading anchor / file name ('#übersicht' -> '%C3%BCbersicht') never matches the registry it is looked up in")
                elif "PARTIAL" in enc:
                    rep.violation("C12.R5", k, m.module.site(call), f"`{unparse(v)}` reaches {label.replace('|', '.')} decoded only by normalizeLinkText, markdown-it's *display* helper, which leaves reserved characters percent-encoded: a file `100%.md` / `c#.md` (only linkable as 100%25.md / c%23.md) is never found")
                else:
                    rep.ok("C12.R5", k, m.module.site(call), f"{unparse(v)}: decoded")
    # the destination is split at '#' while still encoded (a decoded '%23' in a file name must not become the separator)
    for m in rcls.methods.values():
        cfgm = None
        for c, recv in _split_receivers(m):
            cfgm = cfgm or get_cfg(m)
            try:
                at = cfgm.stmt_of(c)
            except Unsupported:
                continue
            # the receiver's kind: inside a helper the parameter's kind comes from its call sites
            envp = _param_encodings(rcls, m)
            enc = _encoding(m, recv, at, frozenset(), envp or None)
            if not enc:
                continue
            n_enc += 1
            k = f"{m.fq}|{unparse(recv)}.{c.func.attr}('#')|split before decoding"
            if enc <= {"RAW"}:
                rep.ok("C12.R5", k, m.module.site(c), "the still-encoded href is split; the parts are decoded afterwards")
            else:
                rep.violation("C12.R5", k, m.module.site(c), f"`{short(c, 50)}` splits a destination that was already percent-decoded ({sorted(enc)}): a file name containing '#' (written c%23.md) is cut at the decoded '#', and its tail is taken for a heading anchor")
    if n_enc < 5:
        rep.error("C12.R5", f"only {n_enc} href-derived attribute value(s) found in SphinxRenderer (8 on the pinned tree)")
    # relfn2path gets the part before '#'
    n_rel = 0
    for name in ("render_link_project", "render_link_unknown"):
        fi = corpus.func(f"{SPHINX_R}.{name}")
        sites: list[tuple[ast.Call, ast.expr | None, ast.expr | None, FunctionInfo]] = []
        for c in [c for c in fi.local_nodes() if isinstance(c, ast.Call)]:
            if isinstance(c.func, ast.Attribute) and c.func.attr == "relfn2path":
                sites.append((c, call_arg(c, 0, "filename"), call_arg(c, 1, "docname"), fi))
                continue
            # the lookup moved into a helper: judge what the handler hands to the parameter that reaches relfn2path
            lc = _local_callee(fi, c)
            if lc is not None and not lc[0].is_lambda:
                for ic in [x for x in lc[0].local_nodes() if isinstance(x, ast.Call) and isinstance(x.func, ast.Attribute) and x.func.attr == "relfn2path"]:
                    ia = call_arg(ic, 0, "filename")
                    if isinstance(ia, ast.Name) and ia.id in lc[0].params and not assignments_to(lc[0], ia.id):
                        sites.append((c, param_of_arg_expr(lc[0], c, ia.id), None, fi))
                        db = call_arg(ic, 1, "docname")
                        if db is not None:
                            sites.append((ic, None, db, lc[0]))
        for call, a, b, owner in sites:
          if a is not None or b is None:
            n_rel += 1
            k = f"{fi.fq}|relfn2path|file part of the destination"
            parts = _hash_part(fi, a) if a is not None else {"?"}
            if "?" in parts:
                rep.error("C12.R5", f"{fi.qualname}: cannot trace the first argument of relfn2path (`{unparse(a) if a else ''}`)")
            elif parts == {"PATH"}:
                rep.ok("C12.R5", k, fi.module.site(call), unparse(a))
            else:
                rep.violation("C12.R5", k, fi.module.site(call), f"relfn2path(`{unparse(a)}`) receives {sorted(parts)} instead of the part before '#': `doc.md#anchor` is never recognised as a document")
          if b is not None:
                k2 = f"{owner.fq}|relfn2path|relative to the current document"
                kinds = DocKinds(corpus).kind(b, owner)
                if kinds == {"FROM"}:
                    rep.ok("C12.R5", k2, owner.module.site(call), unparse(b))
                elif "?" in kinds:
                    rep.error("C12.R5", f"{owner.qualname}: cannot trace the docname argument of relfn2path")
                else:
                    rep.violation("C12.R5", k2, owner.module.site(call), f"relfn2path resolves relative to `{unparse(b)}` ({sorted(kinds)}), not to the referencing document")
    if n_rel < 2:
        rep.error("C12.R5", f"only {n_rel} relfn2path call(s) found in the link handlers")
    rep.expect_min("C12.R5", 20, "4 writers x required attributes + value roles + relfn2path + decoded href values")


# ---------------------------------------------------------------------------
# R6 scheme prefix removal is exact


def _const_str(fi: FunctionInfo, e: ast.AST | None, depth: int = 0) -> str | None:
    if isinstance(e, ast.Constant) and isinstance(e.value, str):
        return e.value
    if isinstance(e, ast.Name) and depth < 3:
        defs = assignments_to(fi, e.id)
        if len(defs) == 1 and defs[0][2] is None:
            return _const_str(fi, defs[0][1], depth + 1)
        if not defs and e.id in fi.module.const_nodes:
            try:
                v = fi.module.const(e.id)
            except Exception:
                return None
            return v if isinstance(v, str) else None
    return None


def _const_int(fi: FunctionInfo, e: ast.AST | None, depth: int = 0) -> int | None:
    if isinstance(e, ast.Constant) and isinstance(e.value, int) and not isinstance(e.value, bool):
        return e.value
    if isinstance(e, ast.Call) and isinstance(e.func, ast.Name) and e.func.id == "len" and len(e.args) == 1:
        v = _const_str(fi, e.args[0])
        return len(v) if v is not None else None
    if isinstance(e, ast.Name) and depth < 3:
        defs = assignments_to(fi, e.id)
        if len(defs) == 1 and defs[0][2] is None:
            return _const_int(fi, defs[0][1], depth + 1)
    return None


def _startswith_guard(cfg: CFG, node: ast.AST, recv: str) -> list[str]:
    out = []
    for t, pol in all_guards(cfg, node):
        if pol and isinstance(t, ast.Call) and isinstance(t.func, ast.Attribute) and t.func.attr == "startswith" and unparse(t.func.value) == recv and len(t.args) == 1:
            v = _const_str(cfg.fi, t.args[0])
            if v is not None:
                out.append(v)
    return out


@rule("C12.R6")
def r6_prefix_removal_exact(corpus: Corpus, rep: Report, tier: str):
    rep.rule("C12.R6", "removing the 'path:' / 'project:' scheme from a destination removes exactly that prefix (slice offset = length of the tested prefix; no character-set strip)")
    funcs = [m for m in corpus.cls(SPHINX_R).methods.values()] + [m for nm, m in corpus.cls(BASE_R).methods.items() if nm.startswith("render_link")]
    n = 0
    for fi in funcs:
        cfg = get_cfg(fi)
        for x in fi.local_nodes():
            recv = None
            kind = None
            if isinstance(x, ast.Subscript) and isinstance(x.slice, ast.Slice) and isinstance(x.ctx, ast.Load) and x.slice.upper is None and x.slice.step is None and (_const_int(fi, x.slice.lower) or 0) > 0:
                recv, kind = x.value, "slice"
            elif isinstance(x, ast.Call) and isinstance(x.func, ast.Attribute) and x.func.attr in ("lstrip", "strip", "rstrip", "removeprefix") and len(x.args) == 1 and _const_str(fi, x.args[0]) is not None:
                recv, kind = x.func.value, x.func.attr
            if recv is None:
                continue
            try:
                at = cfg.stmt_of(x)
            except Unsupported:
                continue
            if not _encoding(fi, recv, at):
                continue  # not a link destination
            n += 1
            rep.saw_function(fi.fq)
            site = fi.module.site(x)
            if kind == "slice":
                off = _const_int(fi, x.slice.lower)
                prefixes = _startswith_guard(cfg, x, unparse(recv))
                k = f"{fi.fq}|{unparse(recv)}[N:]|offset equals the tested prefix"
                if not prefixes:
                    rep.listed("C12.R6", k, site, f"`{short(x, 40)}` is not under a startswith() test of the same value: offset not judged")
                elif any(len(p) == off for p in prefixes):
                    rep.ok("C12.R6", k, site, f"startswith({prefixes[0]!r}) and [{off}:]")
                else:
                    rep.violation("C12.R6", k, site, f"`{short(x, 40)}` removes {off} characters under `startswith({prefixes[0]!r})` (length {len(prefixes[0])}): the destination keeps part of the scheme or loses its first character(s)")
            elif kind == "removeprefix":
                rep.ok("C12.R6", f"{fi.fq}|{unparse(recv)}.removeprefix({_const_str(fi, x.args[0])!r})", site, "exact prefix removal")
            else:
                chars = set(_const_str(fi, x.args[0]))
                k = f"{fi.fq}|{unparse(recv)}.{kind}({_const_str(fi, x.args[0])!r})|not a character-set strip of name characters"
                if len(chars) > 1 and any(c.isalnum() for c in chars):
                    rep.violation("C12.R6", k, site, f"`{short(x, 50)}` strips every leading/trailing character out of the set {sorted(chars)} - it is not a prefix removal: a destination such as 'path:assets/x' or 'thumb.png' loses the beginning of its file name")
                else:
                    rep.ok("C12.R6", k, site, "strips separators/whitespace only")
    rep.expect_min("C12.R6", 2, "project: in both back ends, path: in the Sphinx back end (3 on the pinned tree)")


# ---------------------------------------------------------------------------
# R7 the document-local '#' table that pre-empts project-wide resolution holds explicit targets only


def _nametypes_flags(fi: FunctionInfo) -> set[str]:
    """Names bound to the explicit-flag while iterating `<doc>.nametypes.items()` (for loop or comprehension)."""
    out = set()
    for n in fi.local_nodes():
        if isinstance(n, (ast.For, ast.comprehension)):
            it = n.iter
            if isinstance(it, ast.Call) and isinstance(it.func, ast.Attribute) and it.func.attr == "items" and isinstance(it.func.value, ast.Attribute) and it.func.value.attr == "nametypes":
                tg = n.target
                if isinstance(tg, ast.Tuple) and len(tg.elts) == 2 and isinstance(tg.elts[1], ast.Name):
                    out.add(tg.elts[1].id)
    return out


def _from_nametypes(fi: FunctionInfo, e: ast.expr, store: ast.AST, depth: int = 0) -> bool:
    """Does the (truthy) expression say "this name is an explicit target" - i.e. is it a value of document.nametypes?"""
    if depth > 4:
        return False
    if isinstance(e, ast.Subscript) and isinstance(e.value, ast.Attribute) and e.value.attr == "nametypes":
        return True
    if isinstance(e, ast.Call) and isinstance(e.func, ast.Attribute) and e.func.attr == "get" and isinstance(e.func.value, ast.Attribute) and e.func.value.attr == "nametypes":
        return True
    if isinstance(e, ast.Name):
        if e.id in _nametypes_flags(fi):
            return True
        for st, val, pos in assignments_to(fi, e.id):
            if pos is None and _from_nametypes(fi, val, store, depth + 1):
                return True
    return False


def _keyed_by_docutils_name(f: FunctionInfo, st: ast.AST) -> bool:
    """The store's key is a docutils target name: bound while iterating document.nametypes / document.nameids
    (or their items / keys), or read from a node's ``names``."""
    key = st.slice if isinstance(st, ast.Subscript) else (st.args[0] if isinstance(st, ast.Call) and st.args else st)
    if isinstance(st, ast.expr) and not isinstance(st, (ast.Subscript, ast.Call)):
        key = st  # the key expression of a dict comprehension

    def named(e: ast.AST, depth: int = 0) -> bool:
        if depth > 4:
            return False
        for x in ast.walk(e):
            if isinstance(x, ast.Subscript) and isinstance(x.slice, ast.Constant) and x.slice.value == "names":
                return True
        if not isinstance(e, ast.Name):
            # a key computed from a name (make_id(name), name.lower(), f"{name}", "x" + name) is keyed by that name;
            # an attribute of some node (node["slug"]) is not
            def sources(x) -> list:
                if isinstance(x, ast.Name):
                    return [x]
                if isinstance(x, ast.Call):
                    subs = list(x.args) + [k.value for k in x.keywords]
                    if isinstance(x.func, ast.Attribute) and isinstance(x.func.value, ast.Name) and x.func.attr in ("lower", "strip", "casefold", "replace", "format"):
                        subs.append(x.func.value)
                    return [y for a in subs for y in sources(a)]
                if isinstance(x, ast.JoinedStr):
                    return [y for v in x.values if isinstance(v, ast.FormattedValue) for y in sources(v.value)]
                if isinstance(x, ast.BinOp):
                    return sources(x.left) + sources(x.right)
                return []

            return any(named(x, depth + 1) for x in sources(e))
        if isinstance(e, ast.Name):
            for n in f.local_nodes():
                if isinstance(n, (ast.For, ast.comprehension)) and any(isinstance(a, ast.Attribute) and a.attr in ("nametypes", "nameids") for a in ast.walk(n.iter)):
                    tg = n.target
                    first = tg.elts[0] if isinstance(tg, ast.Tuple) and tg.elts else tg
                    if isinstance(first, ast.Name) and first.id == e.id:
                        return True
            for _, v, pos in assignments_to(f, e.id):
                if pos is None and named(v, depth + 1):
                    return True
        return False

    return named(key)


def _has_handoff(corpus: Corpus, f: FunctionInfo, depth: int = 0) -> bool:
    for c in f.local_nodes():
        if isinstance(c, ast.Call):
            if f.module.resolve(dotted(c.func) or "") == "sphinx.addnodes.pending_xref":
                return True
            callee = self_callee(corpus, f, c)
            if callee is not None and depth < 3 and callee.fq != f.fq and _has_handoff(corpus, callee, depth + 1):
                return True
    return False


def _table_stores(corpus: Corpus, f: FunctionInfo, tname: str, depth: int = 0) -> list[tuple[FunctionInfo, ast.AST]]:
    """Where the entries of the table held in local ``tname`` are written: direct stores, or - when the table is
    produced by a helper - the stores / dict displays behind the helper's returned value."""
    out: list[tuple[FunctionInfo, ast.AST]] = []
    for n in f.local_nodes():
        if isinstance(n, ast.Subscript) and isinstance(n.ctx, ast.Store) and isinstance(n.value, ast.Name) and n.value.id == tname:
            out.append((f, n))
        elif isinstance(n, ast.Call) and isinstance(n.func, ast.Attribute) and n.func.attr in ("setdefault", "update") and isinstance(n.func.value, ast.Name) and n.func.value.id == tname:
            out.append((f, n))
    for _, val, pos in assignments_to(f, tname):
        if pos is not None:
            continue
        if isinstance(val, ast.DictComp):
            out.append((f, val.key))
        elif isinstance(val, ast.Call) and depth < 3:
            callee = self_callee(corpus, f, val)
            if callee is None:
                lc = _local_callee(f, val)
                callee = lc[0] if lc else None
            if callee is None or callee.is_lambda:
                continue
            for r in callee.local_nodes():
                if isinstance(r, ast.Return) and r.value is not None:
                    if isinstance(r.value, ast.Name):
                        out.extend(_table_stores(corpus, callee, r.value.id, depth + 1))
                    elif isinstance(r.value, ast.DictComp):
                        out.append((callee, r.value.key))
    return out


@rule("C12.R7")
def r7_local_table_explicit_only(corpus: Corpus, rep: Report, tier: str):
    rep.rule("C12.R7", "the table of local targets that ResolveAnchorIds consults before handing a '#name' link to project-wide resolution is filled under a `nametypes[name]` (explicit target) guard only")
    fi = corpus.func("mdit_to_docutils.transforms:ResolveAnchorIds.apply")
    rep.saw_function(fi.fq)
    sites = []
    for c in fi.local_nodes():
        if isinstance(c, ast.Call):
            callee = self_callee(corpus, fi, c)
            if fi.module.resolve(dotted(c.func) or "") == "sphinx.addnodes.pending_xref" or (callee is not None and _has_handoff(corpus, callee)):
                sites.append(c)
    if not sites:
        raise Unsupported("ResolveAnchorIds.apply: no pending_xref hand-off found (directly or in a helper)")
    loop = None
    x = parent(sites[0])
    while x is not None:
        if isinstance(x, ast.For):
            loop = x
            break
        x = parent(x)
    if loop is None:
        raise Unsupported("ResolveAnchorIds.apply: hand-off is not inside the link loop")
    tables = set()
    for n in ast.walk(loop):
        if isinstance(n, ast.Compare) and len(n.ops) == 1 and isinstance(n.ops[0], (ast.In, ast.NotIn)) and isinstance(n.comparators[0], ast.Name) and not isinstance(n.left, ast.Constant):
            tables.add(n.comparators[0].id)  # (`"attr" in refnode` is an attribute test, not a table lookup)
    n_judged = 0
    for tname in sorted(tables):
        for f, st in _table_stores(corpus, fi, tname):
            rep.saw_function(f.fq)
            cfg = get_cfg(f)
            k = f"{f.fq}|{tname}[...] = ...|only for explicit targets"
            site = f.module.site(st)
            if not _keyed_by_docutils_name(f, st):
                # e.g. the heading-slug table: its keys are slugs the renderer gave to anchored headings, not
                # docutils names - explicitness does not apply
                rep.listed("C12.R7", k + "|not keyed by a docutils name", site, "entries are not docutils target names")
                continue
            gs = all_guards(cfg, st)
            n_judged += 1
            if any(pol and _from_nametypes(f, t, st) for t, pol in gs):
                rep.ok("C12.R7", k, site, "dominated by a truthy document.nametypes value")
                continue
            if any((not pol) and _from_nametypes(f, t, st) for t, pol in gs):
                rep.violation("C12.R7", k, site, f"`{short(parent(st), 50)}` is reached only for names whose nametypes flag is FALSE: the local table holds the implicit names instead of the explicit targets")
                continue
            # a filter inside the iterated expression (comprehension over nametypes) is a guard too
            filt = False
            x = parent(st)
            while x is not None and x is not f.node:
                if isinstance(x, ast.For):
                    for c in ast.walk(x.iter):
                        if isinstance(c, ast.comprehension) and any(isinstance(a, ast.Attribute) and a.attr == "nametypes" for a in ast.walk(c.iter)) and c.ifs:
                            filt = True
                x = parent(x)
            if filt:
                rep.ok("C12.R7", k, site, "iterates a filtered view of document.nametypes")
                continue
            rep.violation(
                "C12.R7",
                k,
                site,
                f"`{short(parent(st), 50)}` fills the table of local '#' targets without a `document.nametypes[name]` (explicit target) guard: implicit heading names pre-empt project-wide labels of the same name and un-anchored headings become '#' targets (Sphinx's StandardDomain.process_doc skips `not explicit` names)",
            )
    if n_judged == 0:
        raise Unsupported("ResolveAnchorIds.apply: no local target table filled in the transform")
    rep.expect_min("C12.R7", 1, "explicit[name] = (labelid, implicit_title)")


# ---------------------------------------------------------------------------
# R8 the slug registry ('myst_slugs') never has an entry overwritten: stored keys were tested absent


def _returns_verified_absent(corpus: Corpus, callee: FunctionInfo, reg_param: str, depth: int = 0) -> list[tuple[ast.AST, str]]:
    """Return statements of ``callee`` whose value was NOT tested absent from ``reg_param`` on some path: [(node, why)]."""
    bad: list[tuple[ast.AST, str]] = []
    en = Enumerator(corpus, callee, None)
    cfg = en.cfg
    stops = [p for p in cfg.pred.get(EXIT, []) if isinstance(p, ast.Return)]
    if not stops:
        raise Unsupported(f"{callee.qualname}: no return statement")
    # (an exit without `return` hands back None, which is not a slug: nothing to verify there)
    seen = set()
    for stop, st in en.paths(ENTRY, stops):
        v = stop.value
        if isinstance(v, ast.Name):
            want = f"{v.id} in {reg_param}"
            if any(k[0] == want and k[1] is False for k in st.known):
                continue
            why = f"`{v.id}` reaches `return {v.id}` on a path where `{v.id} not in {reg_param}` was not established"
        elif isinstance(v, ast.Call) and depth < 2:
            g = get_callgraph(corpus)
            tg = [t for t in g.flat_targets(g.resolve_call(v, callee))]
            sub_bad = None
            if len(tg) == 1 and not tg[0].is_lambda:
                sub = tg[0]
                # which parameter of the inner helper receives the registry
                inner = None
                shift = 1 if sub.params and sub.params[0] in ("self", "cls") else 0
                for i, a in enumerate(v.args):
                    if isinstance(a, ast.Name) and a.id == reg_param and i + shift < len(sub.params):
                        inner = sub.params[i + shift]
                for kw in v.keywords:
                    if isinstance(kw.value, ast.Name) and kw.value.id == reg_param and kw.arg in sub.params:
                        inner = kw.arg
                if inner is not None:
                    sub_bad = _returns_verified_absent(corpus, sub, inner, depth + 1)
            if sub_bad == []:
                continue
            why = f"`{short(v, 40)}` is returned without having been tested against `{reg_param}`" if sub_bad is None else sub_bad[0][1]
        else:
            why = f"`return {short(v, 40) if v is not None else ''}` hands back a value that was never tested against `{reg_param}`"
        if id(stop) not in seen:
            seen.add(id(stop))
            bad.append((stop, why))
    return bad


RECOMPUTING_CALLS = ("make_id", "compute_unique_slug", "slugify", "default_slugify", "fully_normalize_name", "whitespace_normalize_name")


def _id_provenance(fi: FunctionInfo, e: ast.expr | None, depth: int = 0) -> set[str]:
    """IDS: read from a node's assigned ids (node['ids'][i] / .get('ids') / document.nameids / document.ids);
    RECOMPUTED: derived from the heading text (make_id, slug functions, string building); ?: not traceable."""
    if e is None or depth > 6:
        return {"?"}
    for x in ast.walk(e):
        if isinstance(x, ast.Call):
            nm = x.func.attr if isinstance(x.func, ast.Attribute) else (x.func.id if isinstance(x.func, ast.Name) else "")
            if nm in RECOMPUTING_CALLS:
                return {"RECOMPUTED"}
    if isinstance(e, (ast.JoinedStr, ast.Constant)) or (isinstance(e, ast.BinOp) and isinstance(e.op, (ast.Add, ast.Mod))):
        return {"RECOMPUTED"}
    if isinstance(e, ast.Subscript):
        if isinstance(e.slice, ast.Constant) and e.slice.value == "ids":
            return {"IDS"}
        if isinstance(e.value, ast.Attribute) and e.value.attr in ("nameids",):
            return {"IDS"}
        return _id_provenance(fi, e.value, depth + 1)
    if isinstance(e, ast.Call) and isinstance(e.func, ast.Attribute) and e.func.attr == "get" and e.args and isinstance(e.args[0], ast.Constant) and e.args[0].value == "ids":
        return {"IDS"}
    if isinstance(e, ast.Call) and isinstance(e.func, ast.Name) and e.func.id in ("str", "cast", "next", "iter") and e.args:
        return _id_provenance(fi, e.args[-1], depth + 1)
    if isinstance(e, ast.IfExp):
        return _id_provenance(fi, e.body, depth + 1) | _id_provenance(fi, e.orelse, depth + 1)
    if isinstance(e, ast.BoolOp):
        out: set[str] = set()
        for v in e.values:
            out |= _id_provenance(fi, v, depth + 1)
        return out
    if isinstance(e, ast.Name):
        defs = assignments_to(fi, e.id)
        if not defs:
            return {"?"}
        out = set()
        for _, v, pos in defs:
            if isinstance(pos, int) and isinstance(v, (ast.Tuple, ast.List)) and pos < len(v.elts):
                v = v.elts[pos]
            out |= _id_provenance(fi, v, depth + 1)
        return out
    return {"?"}


def _targetid_index(res: FunctionInfo) -> int | None:
    """Index of the slug-tuple element that the resolver passes to make_refnode as target id."""
    tid = None
    for c in res.local_nodes():
        if isinstance(c, ast.Call) and res.module.resolve(dotted(c.func) or "") == "sphinx.util.nodes.make_refnode":
            a = c.args[3] if len(c.args) > 3 else next((k.value for k in c.keywords if k.arg == "targetid"), None)
            if isinstance(a, ast.Name):
                tid = a.id
    if tid is None:
        return None
    for st, v, pos in assignments_to(res, tid):
        if isinstance(pos, int) and isinstance(v, ast.Subscript) and isinstance(v.value, ast.Name):
            dd = assignments_to(res, v.value.id)
            if dd and all(any((isinstance(x, ast.Constant) and x.value == "myst_slugs") or (isinstance(x, ast.Attribute) and x.attr == "myst_slugs") for x in ast.walk(d[1])) for d in dd):
                return pos
        if pos is None and isinstance(v, ast.Subscript) and isinstance(v.slice, ast.Constant) and isinstance(v.slice.value, int) and isinstance(v.value, ast.Subscript) and isinstance(v.value.value, ast.Name):
            dd = assignments_to(res, v.value.value.id)
            if dd and all(any((isinstance(x, ast.Constant) and x.value == "myst_slugs") or (isinstance(x, ast.Attribute) and x.attr == "myst_slugs") for x in ast.walk(d[1])) for d in dd):
                return v.slice.value
    return None


def _title_index(res: FunctionInfo, id_index: int | None) -> int | None:
    """Index of the slug-tuple element the resolver uses as the implicit link text."""
    for n in res.local_nodes():
        if isinstance(n, ast.Assign) and isinstance(n.targets[0], ast.Tuple) and isinstance(n.value, ast.Subscript) and isinstance(n.value.value, ast.Name):
            dd = assignments_to(res, n.value.value.id)
            if dd and all(any((isinstance(x, ast.Constant) and x.value == "myst_slugs") or (isinstance(x, ast.Attribute) and x.attr == "myst_slugs") for x in ast.walk(d[1])) for d in dd):
                cands = [i for i, el in enumerate(n.targets[0].elts) if isinstance(el, ast.Name) and el.id != "_" and i != id_index]
                if len(cands) == 1:
                    return cands[0]
    # indexed reads: the index whose value flows into an inline node's text
    for n in res.local_nodes():
        if isinstance(n, ast.Assign) and isinstance(n.value, ast.Subscript) and isinstance(n.value.slice, ast.Constant) and isinstance(n.value.slice.value, int) and n.value.slice.value != id_index and isinstance(n.targets[0], ast.Name) and "text" in n.targets[0].id:
            return n.value.slice.value
    return None


def _env_path(e: ast.expr, fi: FunctionInfo | None = None) -> list[str] | None:
    """Access path of an expression below the Sphinx environment: ['metadata', '<doc>', "'myst_slugs'"] for
    env.metadata[docname]['myst_slugs'] (also spelled with .get / getattr and defaults); None if not rooted in env."""
    steps: list[str] = []
    x = e
    for _ in range(12):
        if isinstance(x, ast.Call) and isinstance(x.func, ast.Attribute) and x.func.attr in ("get", "setdefault") and x.args:
            a = x.args[0]
            steps.append(repr(a.value) if isinstance(a, ast.Constant) else "<doc>")
            x = x.func.value
        elif isinstance(x, ast.Call) and isinstance(x.func, ast.Name) and x.func.id == "getattr" and len(x.args) >= 2 and isinstance(x.args[1], ast.Constant):
            steps.append(str(x.args[1].value))
            x = x.args[0]
        elif isinstance(x, ast.Subscript):
            a = x.slice
            steps.append(repr(a.value) if isinstance(a, ast.Constant) else "<doc>")
            x = x.value
        elif isinstance(x, ast.Attribute):
            d = dotted(x) or ""
            if d.split(".")[-1] in ("env", "sphinx_env"):
                return list(reversed(steps))
            steps.append(x.attr)
            x = x.value
        elif isinstance(x, ast.Name) and fi is not None:
            defs = assignments_to(fi, x.id)
            if len(defs) == 1 and defs[0][2] is None:
                x = defs[0][1]  # a local alias such as meta = env.metadata[docname]
            else:
                return None
        else:
            return None
    return None


@rule("C12.R8")
def r8_slug_registry_no_overwrite(corpus: Corpus, rep: Report, tier: str):
    rep.rule("C12.R8", "keys stored into the per-document slug registry (env.metadata[doc]['myst_slugs']) were tested absent from it: no heading's entry is overwritten by a later heading")
    fin = corpus.func(f"{BASE_R}._render_finalise")
    reg = None
    env_writes: list[ast.expr] = []
    for n in fin.local_nodes():
        if isinstance(n, ast.Assign):
            for t in n.targets:
                named = any((isinstance(x, ast.Constant) and x.value == "myst_slugs") or (isinstance(x, ast.Attribute) and x.attr == "myst_slugs") for x in ast.walk(t))
                if named and (dotted(n.value) or "").startswith("self."):
                    reg = dotted(n.value)
                if named and _env_path(t, fin) is not None:
                    env_writes.append(t)  # whatever the value is: judged below
    inplace = []
    for n in fin.local_nodes():
        # env...setdefault("myst_slugs", {}).update(self._x) / env...["myst_slugs"].update(self._x): accumulates in place
        if isinstance(n, ast.Call) and isinstance(n.func, ast.Attribute) and n.func.attr == "update" and n.args and (dotted(n.args[0]) or "").startswith("self.") and _env_path(n.func.value, fin) is not None and any((isinstance(x, ast.Constant) and x.value == "myst_slugs") or (isinstance(x, ast.Attribute) and x.attr == "myst_slugs") for x in ast.walk(n.func.value)):
            reg = reg or dotted(n.args[0])
            inplace.append(n)
    if not reg:
        raise Unsupported("_render_finalise: no renderer attribute is saved under the name 'myst_slugs'")
    # the resolver reads the registry from the place the renderer saved it to (same access path below the environment)
    res = corpus.func(RESOLVER + ".resolve_myst_ref_doc")
    reads = []
    for nd in res.local_nodes():
        if isinstance(nd, (ast.Assign, ast.AnnAssign)) and nd.value is not None and any((isinstance(x, ast.Constant) and x.value == "myst_slugs") or (isinstance(x, ast.Attribute) and x.attr == "myst_slugs") for x in ast.walk(nd.value)):
            reads.append(nd.value)
    cfg_fin = get_cfg(fin)
    for n in inplace:
        rep.ok("C12.R8", f"{fin.fq}|env.{'.'.join(_env_path(n.func.value, fin))}.update({reg})|entries saved by earlier parts of the document are kept", fin.module.site(n), "updated in place")
    # the table saved in the environment is the SAME object as document.myst_slugs: the titles are refreshed later
    # (after the i18n transform) through document.myst_slugs, and cross-document links read the environment's table
    for w in env_writes:
        wpth = _env_path(w, fin)
        wv = parent(w).value if isinstance(parent(w), ast.Assign) else None
        k = f"{fin.fq}|env.{'.'.join(wpth)}|is the object document.myst_slugs refers to"
        site = fin.module.site(w)
        direct = False  # does some later writer (transform) store into the environment's table itself?
        for f2 in corpus.all_functions():
            if f2.is_lambda or f2.fq == fin.fq or "myst_slugs" not in f2.module.src or f2.fq.startswith(res.fq.rsplit(".", 1)[0]):
                continue
            for stn in f2.local_nodes():
                if isinstance(stn, ast.Subscript) and isinstance(stn.ctx, ast.Store) and isinstance(stn.value, ast.Name):
                    if any(pos is None and _env_path(v, f2) == wpth for _, v, pos in assignments_to(f2, stn.value.id)):
                        direct = True
        if wv is not None and dotted(wv) == reg:
            rep.ok("C12.R8", k, site, f"both are {reg}")
        elif direct:
            rep.ok("C12.R8", k, site, "a later writer stores into the environment's table directly")
        elif wv is not None and (isinstance(wv, (ast.Dict, ast.DictComp)) or (isinstance(wv, ast.Call) and ((dotted(wv.func) or "").split(".")[-1] in ("dict", "copy", "deepcopy", "OrderedDict")))) and any((dotted(x) or "") == reg for x in ast.walk(wv)):
            rep.violation("C12.R8", k, site, f"`{short(parent(w), 70)}` saves a COPY of {reg} in the environment while document.myst_slugs keeps referring to {reg} itself: the titles that ResolveAnchorIds re-reads after the i18n transform (and any later correction made through document.myst_slugs) never reach the table that `[](doc.md#heading)` links from other documents read - translated builds show the source-language title again")
        else:
            rep.error("C12.R8", f"_render_finalise: cannot tell whether `{short(wv, 50) if wv is not None else '?'}` saved under env.{'.'.join(wpth)} is the object document.myst_slugs refers to")
    for w in env_writes:
        wpth = _env_path(w, fin)
        wst = cfg_fin.stmt_of(w)
        k = f"{fin.fq}|env.{'.'.join(wpth)} = {reg}|entries saved by earlier parts of the document are kept"
        merged = None
        wv_ = parent(w).value if isinstance(parent(w), ast.Assign) else None
        if isinstance(wv_, ast.Dict) and any(kk is None and _env_path(vv, fin) == wpth for kk, vv in zip(wv_.keys, wv_.values)):
            rep.ok("C12.R8", k, fin.module.site(w), "the saved entries are spread into the new table")
            continue
        for nd in fin.local_nodes():
            prev = None
            if isinstance(nd, ast.For):
                it = nd.iter
                while isinstance(it, ast.Call) and isinstance(it.func, ast.Attribute) and it.func.attr in ("items", "keys", "copy") or (isinstance(it, ast.Call) and isinstance(it.func, ast.Name) and it.func.id in ("list", "dict", "tuple", "sorted")):
                    it = it.func.value if isinstance(it.func, ast.Attribute) else (it.args[0] if it.args else it)
                    if not isinstance(it, (ast.Call, ast.Subscript, ast.Attribute, ast.Name)):
                        break
                if _env_path(it, fin) == wpth and any((isinstance(x, ast.Call) and isinstance(x.func, ast.Attribute) and x.func.attr in ("setdefault", "update", "__setitem__") and dotted(x.func.value) == reg) or (isinstance(x, ast.Subscript) and isinstance(x.ctx, ast.Store) and dotted(x.value) == reg) for b_ in nd.body for x in ast.walk(b_)):
                    prev = nd
            elif isinstance(nd, ast.Call) and isinstance(nd.func, ast.Attribute) and nd.func.attr == "update" and dotted(nd.func.value) == reg and nd.args and _env_path(nd.args[0], fin) == wpth:
                prev = nd
            if prev is not None:
                pst = cfg_fin.stmt_of(prev)
                if cfg_fin.dominates(pst, wst) and pst is not wst:
                    merged = prev
                elif merged is None:
                    merged = False if merged is None else merged
        if isinstance(merged, ast.AST):
            rep.ok("C12.R8", k, fin.module.site(w), f"merged at {fin.module.site(merged)} before the store")
        elif merged is False:
            rep.violation("C12.R8", k, fin.module.site(w), f"the entries already saved under env.{'.'.join(wpth)} are merged into {reg} only after (or not on every path before) the store: at that point the saved table IS {reg}, so the headings of the parts parsed earlier are lost")
        else:
            rep.violation("C12.R8", k, fin.module.site(w), f"`{short(parent(w), 60)}` replaces whatever an earlier parse of the same document saved there: a document parsed in parts (rST `.. include:: x.md :parser: myst_parser.sphinx_`) keeps only the headings of its last Markdown part, and `[](doc.rst#heading-of-an-earlier-part)` warns 'local id not found'")
    if (env_writes or inplace) and reads:
        wp = [_env_path(w, fin) for w in env_writes] + [_env_path(n.func.value, fin) for n in inplace]
        for r in reads:
            rp = _env_path(r, res)
            k = f"{res.fq}|slug registry|read from where the renderer saved it"
            if rp is None:
                rep.error("C12.R8", f"resolve_myst_ref_doc: cannot read the access path of `{short(r, 60)}`")
            elif rp in wp:
                rep.ok("C12.R8", k, res.module.site(r), "env." + ".".join(rp))
            else:
                rep.violation("C12.R8", k, res.module.site(r), f"the resolver reads the slug registry from env.{'.'.join(rp)} but the renderer saves it to env.{'.'.join(wp[0])}: no `doc.md#anchor` link can be resolved")
    else:
        rep.error("C12.R8", "the environment-level writer or the reader of the slug registry was not found")
    n = 0
    for m in corpus.cls(BASE_R).methods.values():
        for st in m.local_nodes():
            if not (isinstance(st, ast.Subscript) and isinstance(st.ctx, ast.Store) and dotted(st.value) == reg):
                continue
            n += 1
            rep.saw_function(m.fq)
            key = st.slice
            k = f"{m.fq}|{reg}[{unparse(key)}] = ...|key tested absent"
            site = m.module.site(st)
            cfg = get_cfg(m)
            # (a) a local `key not in registry` guard
            if any(isinstance(t, ast.Compare) and len(t.ops) == 1 and unparse(t.left) == unparse(key) and dotted(t.comparators[0]) == reg and ((isinstance(t.ops[0], ast.NotIn) and pol) or (isinstance(t.ops[0], ast.In) and not pol)) for t, pol in all_guards(cfg, st)):
                rep.ok("C12.R8", k, site, "guarded by a membership test")
                continue
            # (b) the key comes from a uniquifier that was handed the registry
            if not isinstance(key, ast.Name):
                rep.violation("C12.R8", k, site, f"the key `{unparse(key)}` is computed in place and never tested against {reg}")
                continue
            defs = [(s_, v, p_) for s_, v, p_ in assignments_to(m, key.id)]
            problems = []
            for s_, v, p_ in defs:
                if not (p_ is None and isinstance(v, ast.Call)):
                    problems.append(f"`{key.id}` is bound to `{short(v, 40)}`, which is not a uniquifier call")
                    continue
                g = get_callgraph(corpus)
                tg = g.flat_targets(g.resolve_call(v, m))
                if len(tg) != 1 or tg[0].is_lambda:
                    raise Unsupported(f"{m.qualname}: cannot resolve the producer of the slug `{short(v, 40)}`")
                callee = tg[0]
                shift = 1 if callee.params and callee.params[0] in ("self", "cls") else 0
                rp = None
                for i, a in enumerate(v.args):
                    if dotted(a) == reg and i + shift < len(callee.params):
                        rp = callee.params[i + shift]
                for kw in v.keywords:
                    if dotted(kw.value) == reg and kw.arg in callee.params:
                        rp = kw.arg
                if rp is None:
                    problems.append(f"`{short(v, 50)}` is not given {reg}: uniqueness is checked against something else")
                    continue
                rep.saw_function(callee.fq)
                bad = _returns_verified_absent(corpus, callee, rp)
                if bad:
                    site = callee.module.site(bad[0][0])
                    problems.append(f"{callee.qualname}: {bad[0][1]}")
            if not defs:
                problems.append(f"`{key.id}` has no binding in {m.qualname}")
            if problems:
                rep.violation("C12.R8", k, site, problems[0] + f" - a repeated or literally numbered heading can take a slug that another heading already owns, and its {reg} entry (doc.md#slug -> section id, title) is overwritten")
            else:
                rep.ok("C12.R8", k, site, "every value the uniquifier returns was tested absent from the registry it was given")
    # the section id recorded for a slug is the id docutils assigned to the section, not a recomputed one
    idx = _targetid_index(res)
    if idx is None:
        # decide: is the target id of the reference taken from the registry entry at all?
        tid_arg = None
        for c_ in res.local_nodes():
            if isinstance(c_, ast.Call) and res.module.resolve(dotted(c_.func) or "") == "sphinx.util.nodes.make_refnode":
                tid_arg = c_.args[3] if len(c_.args) > 3 else next((k_.value for k_ in c_.keywords if k_.arg == "targetid"), None)
                tid_call = c_
        reg_names = {nd.targets[0].id if isinstance(nd, ast.Assign) and isinstance(nd.targets[0], ast.Name) else (nd.target.id if isinstance(nd, ast.AnnAssign) and isinstance(nd.target, ast.Name) else None) for nd in res.local_nodes() if isinstance(nd, (ast.Assign, ast.AnnAssign)) and nd.value is not None and any((isinstance(x, ast.Constant) and x.value == "myst_slugs") or (isinstance(x, ast.Attribute) and x.attr == "myst_slugs") for x in ast.walk(nd.value))} - {None}
        reads_entries = any(isinstance(x, ast.Subscript) and isinstance(x.ctx, ast.Load) and isinstance(x.value, ast.Name) and x.value.id in reg_names for x in res.local_nodes())
        k = f"{res.fq}|slug registry|target id of the reference is the section id recorded in the entry"
        if isinstance(tid_arg, ast.Name) and reg_names and reads_entries:
            from_entry = False
            for _, v, pos in assignments_to(res, tid_arg.id):
                if isinstance(pos, int) and isinstance(v, (ast.Tuple, ast.List)) and pos < len(v.elts):
                    v = v.elts[pos]  # a, b = x, y
                if any(isinstance(x, ast.Subscript) and isinstance(x.value, ast.Name) and x.value.id in reg_names for x in ast.walk(v)):
                    from_entry = True
            if not from_entry:
                rep.violation("C12.R8", k, res.module.site(tid_call), f"`{tid_arg.id}`, the target id handed to make_refnode, is never read from the slug registry entry (only other elements of the entry are used): the URI anchor is the slug as written in the link, not the id docutils gave the section (`doc.md#usage-1` -> #usage-1 instead of #id1)")
            else:
                rep.error("C12.R8", "resolve_myst_ref_doc: cannot tell which element of the slug tuple becomes the target id of make_refnode")
        else:
            rep.error("C12.R8", "resolve_myst_ref_doc: cannot tell which element of the slug tuple becomes the target id of make_refnode")
    else:
        for m in corpus.cls(BASE_R).methods.values():
            for st in m.local_nodes():
                if not (isinstance(st, ast.Subscript) and isinstance(st.ctx, ast.Store) and dotted(st.value) == reg):
                    continue
                asg = parent(st)
                val = asg.value if isinstance(asg, (ast.Assign, ast.AnnAssign)) else None
                if isinstance(val, ast.Name):
                    dd = assignments_to(m, val.id)
                    val = dd[0][1] if len(dd) == 1 and dd[0][2] is None else val
                k = f"{m.fq}|{reg}[...] = (.., id, ..)|id is the one docutils assigned"
                site = m.module.site(st)
                if not isinstance(val, ast.Tuple) or idx >= len(val.elts):
                    rep.error("C12.R8", f"{m.qualname}: the value stored in {reg} is not a tuple display with an element {idx}")
                    continue
                prov = _id_provenance(m, val.elts[idx])
                if "RECOMPUTED" in prov:
                    rep.violation("C12.R8", k, site, f"element {idx} of the slug entry, `{short(val.elts[idx], 50)}`, is recomputed from the heading text instead of being read from the section node's ids (docutils de-duplicates ids: the second heading 'Usage' is id1, not usage), so `doc.md#usage-1` points at the first section or at nothing")
                elif prov == {"IDS"}:
                    rep.ok("C12.R8", k, site, unparse(val.elts[idx]))
                else:
                    rep.error("C12.R8", f"{m.qualname}: cannot trace where the recorded section id `{short(val.elts[idx], 40)}` comes from ({sorted(prov)})")
    # the title recorded for a slug is read again from the tree after Sphinx's i18n transform replaced the titles
    tidx = _title_index(res, idx)
    locale_prio = 20
    try:
        sib = corpus.sibling("sphinx/transforms/i18n.py")
        rep.saw_sibling(sib.rel)
        lc = sib.classes.get("Locale")
        for st_ in (lc.node.body if lc else []):
            if isinstance(st_, ast.Assign) and isinstance(st_.targets[0], ast.Name) and st_.targets[0].id == "default_priority" and isinstance(st_.value, ast.Constant):
                locale_prio = st_.value.value
    except Exception:
        pass
    if tidx is None:
        rep.error("C12.R8", "resolve_myst_ref_doc: cannot tell which element of the slug tuple is used as the implicit link text")
    else:
        k = f"{RESOLVER.split(':')[0].replace('sphinx_ext.myst_refs', 'myst_parser')}|slug registry titles|re-read from the tree after the i18n (Locale) transform"
        found = None
        late = None
        base_fqs = {c.fq for c in corpus.mro(corpus.cls(BASE_R))} | {c.fq for c in corpus.subclasses(corpus.cls(BASE_R))}
        for f in corpus.all_functions():
            if f.is_lambda or (f.cls is not None and f.cls.fq in base_fqs):
                continue  # the renderer records titles while parsing, before any transform runs
            if "myst_slugs" not in f.module.src or not any((isinstance(y, ast.Constant) and y.value == "myst_slugs") or (isinstance(y, ast.Attribute) and y.attr == "myst_slugs") for y in f.local_nodes()):
                continue
            tabs = {nm for nm in {x.id for x in f.local_nodes() if isinstance(x, ast.Name)} if any(pos is None and any((isinstance(y, ast.Constant) and y.value == "myst_slugs") or (isinstance(y, ast.Attribute) and y.attr == "myst_slugs") for y in ast.walk(v)) for _, v, pos in assignments_to(f, nm))}
            for stn in f.local_nodes():
                if isinstance(stn, ast.Subscript) and isinstance(stn.ctx, ast.Store) and isinstance(stn.value, ast.Name) and stn.value.id in tabs:
                    asg = parent(stn)
                    val = asg.value if isinstance(asg, ast.Assign) else None
                    if isinstance(val, ast.Tuple) and tidx < len(val.elts) and any(isinstance(y, ast.Call) and (dotted(y.func) or "").split(".")[-1] in ("clean_astext", "astext") for y in ast.walk(val.elts[tidx])):
                        prio = None
                        if f.cls is not None:
                            for c_ in corpus.mro(f.cls):
                                for st_ in c_.node.body:
                                    if prio is None and isinstance(st_, ast.Assign) and isinstance(st_.targets[0], ast.Name) and st_.targets[0].id == "default_priority" and isinstance(st_.value, ast.Constant):
                                        prio = st_.value.value
                        if prio is None or prio > locale_prio:
                            found = (f, stn, prio)
                        else:
                            late = (f, stn, prio)
        if found:
            rep.ok("C12.R8", k, found[0].module.site(found[1]), f"{found[0].qualname} (priority {found[2]} > Locale {locale_prio}) stores clean_astext(title) back into the registry")
            rep.saw_function(found[0].fq)
        elif late:
            rep.violation("C12.R8", k, late[0].module.site(late[1]), f"{late[0].qualname} refreshes the titles at priority {late[2]}, not after sphinx.transforms.i18n.Locale ({locale_prio}): translated builds still show the source-language title as the text of `[](doc.md#heading)`")
        else:
            rep.violation("C12.R8", k, fin.site(), f"the titles in the slug registry are only recorded while parsing ({fin.qualname}); nothing re-reads them from the tree after sphinx.transforms.i18n.Locale (priority {locale_prio}) replaced the title nodes: with language/locale_dirs set, `[](doc.md#heading)` shows the untranslated title while the page, the toctree and `[](doc.md)` show the translated one")
    rep.expect_min("C12.R8", 1, "self._heading_slugs[slug] = ... in generate_heading_target")


# ---------------------------------------------------------------------------
# R9 keys looked up in the std-domain label registries are lower-cased


def _case_kind(corpus: Corpus, fi: FunctionInfo, e: ast.expr | None, at, busy: frozenset = frozenset()) -> set[str]:
    """LOWER (passed through .lower()/.casefold() or a lower-case literal), RAW (as spelled in the link), NONE, ?"""
    if e is None or len(busy) > 10:
        return {"?"}
    if isinstance(e, ast.Constant):
        if e.value is None:
            return {"NONE"}
        return {"LOWER"} if isinstance(e.value, str) and e.value == e.value.lower() else {"RAW"}
    if isinstance(e, ast.Call) and isinstance(e.func, ast.Attribute) and e.func.attr in ("lower", "casefold") and not e.args:
        return {"LOWER"}
    if isinstance(e, ast.Call) and dotted(e.func) in ("cast", "typing.cast", "t.cast", "str") and e.args:
        return _case_kind(corpus, fi, e.args[-1], at, busy)
    if isinstance(e, ast.Call) and isinstance(e.func, ast.Attribute) and e.func.attr in ("strip", "lstrip", "rstrip", "replace", "removeprefix", "removesuffix"):
        return _case_kind(corpus, fi, e.func.value, at, busy)
    if isinstance(e, ast.BoolOp):
        out: set[str] = set()
        for i, v in enumerate(e.values):
            kd = _case_kind(corpus, fi, v, at, busy)
            out |= (kd - {"NONE"}) if (isinstance(e.op, ast.Or) and i < len(e.values) - 1) else kd
        return out
    if isinstance(e, ast.IfExp):
        return _case_kind(corpus, fi, e.body, at, busy) | _case_kind(corpus, fi, e.orelse, at, busy)
    if isinstance(e, ast.Subscript) and isinstance(e.slice, ast.Constant) and isinstance(e.slice.value, str):
        return {"RAW"}  # an attribute of the node as written
    if isinstance(e, ast.Name):
        key = (fi.fq, e.id, id(at))
        if key in busy:
            return set()
        out = set()
        cfg = get_cfg(fi)
        defs = _reaching(fi, e.id, at)
        for d, val, pos in defs:
            out |= _case_kind(corpus, fi, val, d, busy | {key}) if pos is None else {"?"}
        owner = fi
        if e.id in owner.params:
            # the parameter's entry value reaches `at` unless every path rebinds it first
            dstmts = [cfg.stmt_of(st) for st, _, _ in assignments_to(fi, e.id) if st is not None]
            if cfg.paths_avoiding(ENTRY, at, lambda n: any(n is d for d in dstmts if d is not at)):
                idx = owner.params.index(e.id)
                shift = 1 if owner.params and owner.params[0] in ("self", "cls") else 0
                a_ = owner.node.args
                pos_params = a_.posonlyargs + a_.args
                default = None
                nd = len(a_.defaults)
                if idx < len(pos_params) and idx >= len(pos_params) - nd:
                    default = a_.defaults[idx - (len(pos_params) - nd)]
                g = get_callgraph(corpus)
                sites = g.callers().get(owner.fq, [])
                if not sites:
                    out |= {"?"}
                for cfi, call in sites:
                    arg = None
                    p_ = idx - shift
                    if 0 <= p_ < len(call.args) and not any(isinstance(x, ast.Starred) for x in call.args[: p_ + 1]):
                        arg = call.args[p_]
                    for kw in call.keywords:
                        if kw.arg == e.id:
                            arg = kw.value
                    if arg is None:
                        out |= _case_kind(corpus, owner, default, at, busy | {key}) if default is not None else {"?"}
                    elif cfi.is_lambda:
                        out |= {"?"}
                    else:
                        out |= _case_kind(corpus, cfi, arg, get_cfg(cfi).stmt_of(call), busy | {key})
        return out or {"?"}
    return {"?"}


@rule("C12.R9")
def r9_label_keys_lowercased(corpus: Corpus, rep: Report, tier: str):
    rep.rule("C12.R9", "keys looked up in the std domain's label registries (labels / anonlabels) are lower-cased on every flow, as Sphinx stores them")
    ci = corpus.cls(RESOLVER)
    n = 0
    for m in ci.methods.values():
        cfg = None
        for x in m.local_nodes():
            key = None
            reg = None
            if isinstance(x, ast.Call) and isinstance(x.func, ast.Attribute) and x.func.attr == "get" and isinstance(x.func.value, ast.Attribute) and x.func.value.attr in ("labels", "anonlabels") and x.args:
                key, reg = x.args[0], x.func.value.attr
            elif isinstance(x, ast.Subscript) and isinstance(x.ctx, ast.Load) and isinstance(x.value, ast.Attribute) and x.value.attr in ("labels", "anonlabels"):
                key, reg = x.slice, x.value.attr
            elif isinstance(x, ast.Compare) and len(x.ops) == 1 and isinstance(x.ops[0], (ast.In, ast.NotIn)) and isinstance(x.comparators[0], ast.Attribute) and x.comparators[0].attr in ("labels", "anonlabels"):
                key, reg = x.left, x.comparators[0].attr
            if key is None:
                continue
            n += 1
            rep.saw_function(m.fq)
            cfg = cfg or get_cfg(m)
            kinds = _case_kind(corpus, m, key, cfg.stmt_of(x))
            k = f"{m.fq}|{reg}[{unparse(key)}]|lower-cased key"
            site = m.module.site(x)
            if "RAW" in kinds:
                rep.violation("C12.R9", k, site, f"`{unparse(key)}` can reach the lookup in std-domain `{reg}` as spelled in the link (not lower-cased) on some flow ({sorted(kinds)}): Sphinx stores label names lower-cased, so `[](#My-Label)` / `[text](My-Label)` no longer resolves to the project-wide label")
            elif "?" in kinds:
                rep.error("C12.R9", f"{m.qualname}: cannot trace the case of `{unparse(key)}` looked up in {reg} ({sorted(kinds)})")
            else:
                rep.ok("C12.R9", k, site, f"{sorted(kinds)}")
    # a label lookup gives up (returns None) only after the complete registry was consulted: every std label is in
    # anonlabels, only labels with a title/caption are in labels (Sphinx StandardDomain.process_doc)
    for m in ci.methods.values():
        if m.is_lambda or not any(isinstance(x, ast.Attribute) and x.attr in ("labels", "anonlabels") for x in m.local_nodes()):
            continue
        en = Enumerator(corpus, m, "node" if "node" in m.params else None)
        stops = [p_ for p_ in en.cfg.pred.get(EXIT, []) if isinstance(p_, ast.Return)]
        gave_up = [(stop, st) for stop, st in en.paths(ENTRY, stops) if stop.value is None or (isinstance(stop.value, ast.Constant) and stop.value.value is None)]
        if not gave_up:
            continue
        k = f"{m.fq}|gives up only after the complete label registry (anonlabels) was consulted"
        bad = [(stop, st) for stop, st in gave_up if any(e[0].startswith("lookup:") for e in st.events) and not any(e[0] == "lookup:anonlabels" for e in st.events)]
        if bad:
            stop, st = bad[0]
            rep.violation("C12.R9", k, m.module.site(stop), "a path returns None (target not found) after looking the name up in std-domain `labels` only: labels without a title or caption (`(name)=` before a paragraph, `:name:` on a note) are only in `anonlabels`, so `[](#name)` from another document warns 'target not found' although `[text](#name)` resolves", describe(en.cfg, st.trail))
        else:
            rep.ok("C12.R9", k, m.site(), f"{len(gave_up)} giving-up path(s)")
    rep.expect_min("C12.R9", 3, "anonlabels.get(target) and labels.get(target) in _resolve_ref_nested, and its giving-up paths")


# ---------------------------------------------------------------------------
# R10 destination-rewriting settings are scoped to the nested render that set them


def _start_kind(dk: "DocKinds", fi: FunctionInfo, e: ast.expr, depth: int = 0) -> set[str]:
    """FROM: the (directory of the) document being built; MDENV: a directory remembered in the markdown-it env
    entry; ROOT: the source root; ?: unknown."""
    if depth > 6:
        return {"?"}
    if isinstance(e, ast.Call):
        nm = (dotted(e.func) or "").split(".")[-1]
        if nm in ("dirname", "abspath", "normpath", "realpath", "str", "Path", "fspath") and e.args:
            return _start_kind(dk, fi, e.args[0], depth + 1)
        if nm == "doc2path" and e.args:
            return _start_kind(dk, fi, e.args[0], depth + 1)
        if nm in ("get", "pop") and (dotted(e.func.value) or "").endswith("md_env"):
            return {"MDENV"}
        return {"?"}
    if isinstance(e, ast.Attribute):
        if e.attr in ("parent", "parents"):
            return _start_kind(dk, fi, e.value, depth + 1)
        d = dotted(e) or ""
        if d.endswith("env.docname"):
            return {"FROM"}
        if d.endswith("srcdir") or d.endswith("confdir"):
            return {"ROOT"}
        return {"?"}
    if isinstance(e, ast.Subscript):
        if (dotted(e.value) or "").endswith("md_env"):
            return {"MDENV"}
        return _start_kind(dk, fi, e.value, depth + 1)
    if isinstance(e, ast.Starred):
        return _start_kind(dk, fi, e.value, depth + 1)
    if isinstance(e, ast.Name):
        out: set[str] = set()
        for _, v, pos in assignments_to(fi, e.id):
            out |= _start_kind(dk, fi, v, depth + 1)
        return out or {"?"}
    return {"?"}


@rule("C12.R10")
def r10_rewrite_scope(corpus: Corpus, rep: Report, tier: str):
    rep.rule("C12.R10", "a markdown-it env entry that rewrites link destinations (read by the Sphinx link handlers) is restored to its saved value on every path after it was set")
    # keys the Sphinx link handlers read from md_env
    keys: dict[str, str] = {}
    for m in corpus.cls(SPHINX_R).methods.values():
        for c in m.local_nodes():
            k = None
            if isinstance(c, ast.Call) and isinstance(c.func, ast.Attribute) and c.func.attr == "get" and (dotted(c.func.value) or "").endswith("md_env") and c.args and isinstance(c.args[0], ast.Constant):
                k = c.args[0].value
            elif isinstance(c, ast.Subscript) and isinstance(c.ctx, ast.Load) and (dotted(c.value) or "").endswith("md_env") and isinstance(c.slice, ast.Constant):
                k = c.slice.value
            if isinstance(k, str):
                keys.setdefault(k, f"{m.module.site(c)} ({m.qualname})")
    if not keys:
        raise Unsupported("no md_env entry is read by the Sphinx link handlers (relative-docs on the pinned tree)")

    cur: list[FunctionInfo] = []

    def is_md_env(x: ast.expr) -> bool:
        d = dotted(x) or ""
        if d.endswith("md_env"):
            return True
        if isinstance(x, ast.Name) and cur:
            defs = assignments_to(cur[-1], x.id)
            return len(defs) == 1 and defs[0][2] is None and (dotted(defs[0][1]) or "").endswith("md_env")
        return False

    def env_key(t) -> str | None:
        if isinstance(t, ast.Subscript) and is_md_env(t.value) and isinstance(t.slice, ast.Constant) and isinstance(t.slice.value, str):
            return t.slice.value
        return None

    def saved_key(fi: FunctionInfo, v: ast.expr) -> str | None:
        """The md_env key whose previous value the expression holds (a name bound once to md_env.get(K) / md_env[K])."""
        if isinstance(v, ast.Name):
            defs = assignments_to(fi, v.id)
            if len(defs) == 1 and defs[0][2] is None:
                d = defs[0][1]
                if isinstance(d, ast.Call) and isinstance(d.func, ast.Attribute) and d.func.attr in ("get", "pop") and is_md_env(d.func.value) and d.args and isinstance(d.args[0], ast.Constant):
                    return d.args[0].value
                if isinstance(d, ast.Subscript) and env_key(d) is not None:
                    return env_key(d)
        return None

    n = 0
    for fi in corpus.all_functions():
        if fi.is_lambda or "md_env" not in fi.module.src or not any(isinstance(y, ast.Attribute) and y.attr == "md_env" for y in fi.local_nodes()):
            continue
        sets, restores = [], []
        cur[:] = [fi]
        for nd in fi.local_nodes():
            if isinstance(nd, ast.Assign):
                for t in nd.targets:
                    k = env_key(t)
                    if k in keys:
                        if isinstance(nd.value, ast.Name) and nd.value.id in fi.params and not assignments_to(fi, nd.value.id):
                            continue  # stores what its caller hands in: judged at the call sites (restoring helper)
                        (restores if saved_key(fi, nd.value) == k else sets).append((k, nd))
            elif isinstance(nd, ast.Delete):
                for t in nd.targets:
                    if env_key(t) in keys:
                        restores.append((env_key(t), nd))
            elif isinstance(nd, ast.Expr) and isinstance(nd.value, ast.Call) and isinstance(nd.value.func, ast.Attribute) and nd.value.func.attr == "pop" and is_md_env(nd.value.func.value) and nd.value.args and isinstance(nd.value.args[0], ast.Constant) and nd.value.args[0].value in keys:
                restores.append((nd.value.args[0].value, nd))
            elif isinstance(nd, ast.Expr) and isinstance(nd.value, ast.Call):
                # a restoring helper: it is handed the saved value and stores / pops the entry itself
                callee = self_callee(corpus, fi, nd.value)
                if callee is None:
                    lc = _local_callee(fi, nd.value)
                    callee = lc[0] if lc else None
                if callee is not None and not callee.is_lambda:
                    for a in list(nd.value.args) + [kw.value for kw in nd.value.keywords]:
                        k = saved_key(fi, a)
                        if k in keys and any((isinstance(x, ast.Subscript) and env_key(x) == k and isinstance(x.ctx, (ast.Store, ast.Del))) or (isinstance(x, ast.Call) and isinstance(x.func, ast.Attribute) and x.func.attr == "pop" and x.args and isinstance(x.args[0], ast.Constant) and x.args[0].value == k) for x in callee.local_nodes()):
                            restores.append((k, nd))
        if not sets:
            continue
        rep.saw_function(fi.fq)
        cfg = get_cfg(fi)
        for k, st in sets:
            n += 1
            key = f"{fi.fq}|md_env[{k!r}] = ...|restored on every path"
            site = fi.module.site(st)
            rs = [cfg.stmt_of(r) for kk, r in restores if kk == k]
            start = cfg.stmt_of(st)
            leak = None
            for stop in (EXIT, "RAISE"):
                if stop in cfg.reachable_from(start) and cfg.paths_avoiding(start, stop, lambda x: any(x is r for r in rs)):
                    leak = stop
                    break
            if leak is None:
                rep.ok("C12.R10", key, site, f"{len(rs)} restoring store(s); read at {keys[k]}")
            else:
                how = "returns" if leak == EXIT else "raises"
                rep.violation("C12.R10", key, site, f"after `{short(st, 50)}` a path {how} without putting the saved value of md_env[{k!r}] back (no unconditional restore / pop): the setting outlives the nested render, and `{keys[k].split('(')[-1].rstrip(')')}` rewrites the destinations of links in the rest of the including document")
    # the rewritten destination is later resolved by relfn2path relative to env.docname: it has to be made relative to
    # the directory of THAT document, not to a directory remembered in the md_env entry
    dk = DocKinds(corpus)
    for m in corpus.cls(SPHINX_R).methods.values():
        reads_key = any(
            (isinstance(c, ast.Call) and isinstance(c.func, ast.Attribute) and c.func.attr in ("get", "pop", "setdefault") and (dotted(c.func.value) or "").endswith("md_env") and c.args and isinstance(c.args[0], ast.Constant) and c.args[0].value in keys)
            or (isinstance(c, ast.Subscript) and (dotted(c.value) or "").endswith("md_env") and isinstance(c.slice, ast.Constant) and c.slice.value in keys)
            or (isinstance(c, ast.Compare) and len(c.ops) == 1 and isinstance(c.ops[0], (ast.In, ast.NotIn)) and isinstance(c.left, ast.Constant) and c.left.value in keys and (dotted(c.comparators[0]) or "").endswith("md_env"))
            for c in m.local_nodes()
        )
        if not reads_key:
            continue
        for c in [x for x in m.local_nodes() if isinstance(x, ast.Call) and (dotted(x.func) or "").split(".")[-1] == "relpath"]:
            n += 1
            rep.saw_function(m.fq)
            start = call_arg(c, 1, "start")
            k = f"{m.fq}|os.path.relpath(rewritten destination, start)|start is the directory of the document being built"
            site = m.module.site(c)
            if start is None:
                rep.violation("C12.R10", k, site, "the rewritten destination is made relative to the process's working directory")
                continue
            kinds = _start_kind(dk, m, start)
            if kinds == {"FROM"}:
                rep.ok("C12.R10", k, site, unparse(start))
            elif "?" in kinds or not kinds:
                rep.error("C12.R10", f"{m.qualname}: cannot trace the start directory `{unparse(start)}` of relpath ({sorted(kinds)})")
            else:
                rep.violation("C12.R10", k, site, f"`{unparse(start)}` derives from {sorted(kinds)}: the destination is made relative to a directory other than that of env.docname (the file holding the include directive / the source root), but relfn2path resolves it relative to the document being built - links of a file included from an included file (or from a document in a sub-directory) are reported missing")
    rep.expect_min("C12.R10", 2, "MockIncludeDirective.run sets relative-docs around the nested render; _handle_relative_docs makes the destination relative")


RULES = [r10_rewrite_scope, r1_classification_totality, r2_resolver_totality, r3_exactly_one_warning, r4_from_to_roles, r5_writer_reader_agreement, r6_prefix_removal_exact, r7_local_table_explicit_only, r8_slug_registry_no_overwrite, r9_label_keys_lowercased]


# ---------------------------------------------------------------------------
# mutants of the current tree


def _stmt_of(fi: FunctionInfo, pred):
    c = [n for n in fi.local_nodes() if isinstance(n, ast.stmt) and pred(n)]
    c.sort(key=lambda n: n.lineno)
    return c[0] if c else None


def mutants(corpus: Corpus):
    out: list = []
    sx = corpus.mod("mdit_to_docutils.sphinx_")
    rf = corpus.mod("sphinx_ext.myst_refs")
    tr = corpus.mod("mdit_to_docutils.transforms")

    def add(mid, rule_id, mod, node, text, expect="", canary=False):
        if node is None:
            out.append((mid, "anchor construct not found on this tree"))
        else:
            out.append(Mutant(mid, rule_id, mod.rel, splice(mod.src, node, text), expect=expect, canary=canary))

    # --- R1 ---
    f = sx.func("SphinxRenderer.render_link_project")
    iff = find_node(f, lambda n: isinstance(n, ast.If) and unparse(n.test) == "not docname")
    # the statement of the failing branch that hands the link to render_link_url (a `return self.render_link_url(..)`
    # or a plain call followed by a fill-in of the text)
    ret = next((x for x in (iff.body if iff is not None else []) if isinstance(x, (ast.Return, ast.Expr)) and isinstance(x.value, ast.Call) and self_call_name(x.value) == "render_link_url"), None)
    if ret is not None and isinstance(ret, ast.Expr):
        # drop the delegation and everything that depends on the node it appended
        rest = [x for x in iff.body if x.lineno > ret.lineno and not isinstance(x, ast.Return)]
        src2 = sx.src
        for x in sorted(rest, key=lambda n: -n.lineno):
            src2 = splice(src2, x, "pass")
        out.append(Mutant("c12-project-missing-doc-link-dropped", "C12.R1", sx.rel, splice(src2, ret, "pass"), expect="render_link_project"))
    else:
        add("c12-project-missing-doc-link-dropped", "C12.R1", sx, ret, "return None", expect="render_link_project")
    f = sx.func("SphinxRenderer._process_wrap_node")
    try:  # the explicit text may be rendered by the private helper that builds the inner node
        tb = _text_builder(corpus, f, f.params[1], f.params[2]) if len(f.params) > 2 else None
    except Unsupported:
        tb = None
    st = _stmt_of(tb[0] if tb else f, lambda n: isinstance(n, ast.Expr) and unparse(n.value).startswith("self.render_children("))
    add("c12-explicit-text-not-rendered", "C12.R1", sx, st, "pass", expect="explicit text rendered")
    st = _stmt_of(f, lambda n: isinstance(n, ast.Expr) and unparse(n.value).startswith("self.current_node.append("))
    add("c12-wrap-not-attached", "C12.R1", sx, st, "pass", expect="wrap attached once")
    f = sx.func("SphinxRenderer.render_link_unknown")
    st = _stmt_of(f, lambda n: isinstance(n, ast.Expr) and unparse(n.value).startswith("self._process_wrap_node("))
    if st is not None:
        seg = ast.get_source_segment(sx.src, st)
        add("c12-unknown-link-only-when-explicit", "C12.R1", sx, st, "if explicit or is_file:\n" + indent_of(f, st) + "    " + seg, expect="render_link_unknown")
    # --- R2 ---
    f = rf.func("MystReferenceResolver.resolve_myst_ref_doc")
    iff = find_node(f, lambda n: isinstance(n, ast.If) and "all_docs" in unparse(n.test))
    st = next((x for x in (iff.body if iff is not None else []) if isinstance(x, ast.Expr) and "replace_self" in unparse(x.value)), None)
    add("c12-unknown-doc-left-pending", "C12.R2", rf, st, "pass", expect="resolve_myst_ref_doc", canary=True)
    ret = iff.body[-1] if iff is not None and isinstance(iff.body[-1], ast.Return) else None
    add("c12-unknown-doc-falls-through", "C12.R2", rf, ret, "pass", expect="twice")
    f = rf.func("MystReferenceResolver.run")
    st = _stmt_of(f, lambda n: isinstance(n, ast.Expr) and unparse(n.value).startswith("node.replace_self("))
    if st is not None:
        seg = ast.get_source_segment(rf.src, st)
        add("c12-replace-only-when-children", "C12.R2", rf, st, "if newnode.children:\n" + indent_of(f, st) + "    " + seg, expect="run")
    # --- R3 ---
    st = _stmt_of(f, lambda n: isinstance(n, ast.Expr) and isinstance(n.value, ast.Call) and xref_missing_warning(n.value, f))
    add("c12-missing-warning-dropped", "C12.R3", rf, st, "pass", expect="null:", canary=True)
    ap = _stmt_of(f, lambda n: isinstance(n, ast.Expr) and unparse(n.value).startswith("newnode.append(node[0]"))
    if ap is not None and st is not None:
        seg = ast.get_source_segment(rf.src, st)
        add("c12-fallback-warns-again", "C12.R3", rf, ap, ast.get_source_segment(rf.src, ap) + "\n" + indent_of(f, ap) + seg.replace("\n", "\n"), expect="warnings")
    add("c12-fallback-loses-text", "C12.R3", rf, ap, "newnode.append(nodes.literal(target, target))", expect="text kept")
    g = rf.func("MystReferenceResolver.resolve_myst_ref_doc")
    iff_u = find_node(g, lambda n: isinstance(n, ast.If) and "all_docs" in unparse(n.test))
    st = next((x for x in (iff_u.body if iff_u is not None else []) if isinstance(x, ast.Expr) and "replace_self" in unparse(x.value)), None)
    add("c12-unknown-doc-text-replaced-by-name", "C12.R3", rf, st, "node.replace_self(nodes.literal(ref_docname, ref_docname))", expect="text kept")
    # revert of bc6e052: the placeholder copy is put in place without being inspected / filled
    fill = next((x for x in (iff_u.body if iff_u is not None else []) if isinstance(x, ast.If) and "children" in unparse(x.test)), None)
    add("c12-unknown-doc-placeholder-not-filled", "C12.R3", rf, fill, "pass", expect="replacement has text")
    st = _stmt_of(g, lambda n: isinstance(n, ast.Expr) and unparse(n.value).startswith("innernode.extend(") and "children" in unparse(n.value))
    add("c12-doc-link-nested-markup-dropped", "C12.R3", rf, st, "pass", expect="text kept")
    iff = find_node(g, lambda n: isinstance(n, ast.If) and isinstance(n.test, ast.Compare) and isinstance(n.test.ops[0], ast.NotIn) and "slug" in unparse(n.test))
    w = None
    if iff is not None:
        w = [s for s in iff.body if isinstance(s, ast.Expr) and isinstance(s.value, ast.Call) and xref_missing_warning(s.value, g)]
        w = w[0] if w else None
    add("c12-missing-slug-silent", "C12.R3", rf, w, "pass", expect="miss:")
    # revert of a572ef1: any statement that re-fills an empty implicit text (plain assignment or `if not text: text = ...`)
    def _refills(x) -> bool:
        if isinstance(x, ast.If):
            tested = {nm.id for nm in ast.walk(x.test) if isinstance(nm, ast.Name)}
            return any(isinstance(y, ast.Assign) and isinstance(y.targets[0], ast.Name) and y.targets[0].id in tested and "titles" in unparse(y.value) for y in x.body)
        return False

    fixst = _stmt_of(g, _refills)
    if fixst is None and iff is not None:
        cand = [x for x in iff.body if isinstance(x, ast.Assign) and "titles" in unparse(x.value)]
        fixst = cand[0] if cand else None
    add("c12-missing-slug-link-without-text", "C12.R3", rf, fixst, "pass", expect="replacement has text")
    # class "an id is used without having been found in a registry" (seeded: registry absent => accepted)
    if iff is not None:
        seg = ast.get_source_segment(rf.src, iff)
        reg = unparse(iff.test.comparators[0])
        want = unparse(iff.test.left)
        ind = indent_of(g, iff)
        add("c12-slug-registry-empty-accepted", "C12.R3", rf, iff, f"if not {reg}:\n{ind}    targetid = {want}\n{ind}el" + seg, expect="unverified:")
        unp = [x for x in iff.orelse if isinstance(x, ast.Assign) and isinstance(x.targets[0], ast.Tuple) and len(x.targets[0].elts) == 3]
        if unp:
            names = [unparse(e) for e in unp[0].targets[0].elts]
            add("c12-slug-used-as-section-id", "C12.R3", rf, unp[0], f"{names[1]}, {names[2]} = {want}, {unparse(unp[0].value)}[2]", expect="unverified:")
        else:
            out.append(("c12-slug-used-as-section-id", "slug tuple unpacking not found"))
    wcall = find_node(g, lambda n: isinstance(n, ast.Call) and xref_missing_warning(n, g) and n.args and unparse(n.args[0]) == "ref_id")
    if wcall is not None:
        add("c12-slug-warning-names-doc-only", "C12.R3", rf, wcall.args[1], 'f"local id not found in doc {ref_docname!r}"', expect="names the target")
    f = sx.func("SphinxRenderer.render_link_project")
    st = _stmt_of(f, lambda n: isinstance(n, ast.Expr) and isinstance(n.value, ast.Call) and xref_missing_warning(n.value, f))
    add("c12-project-missing-doc-silent", "C12.R3", sx, st, "pass", expect="render_link_project")
    # --- R4 ---
    c = find_node(g, lambda n: isinstance(n, ast.Call) and unparse(n.func) == "make_refnode")
    if c is not None and len(c.args) >= 5:
        a = [ast.get_source_segment(rf.src, x) for x in c.args]
        add("c12-doc-from-to-swapped", "C12.R4", rf, c, f"make_refnode({a[0]}, {a[2]}, {a[1]}, {a[3]}, {a[4]})", expect="resolve_myst_ref_doc", canary=True)
    h = rf.func("MystReferenceResolver._resolve_doc_nested")
    c = find_node(h, lambda n: isinstance(n, ast.Call) and unparse(n.func) == "make_refnode")
    if c is not None and len(c.args) >= 5:
        a = [ast.get_source_segment(rf.src, x) for x in c.args]
        add("c12-doc-nested-from-is-target", "C12.R4", rf, c, f"make_refnode({a[0]}, {a[2]}, {a[2]}, {a[3]}, {a[4]})", expect="_resolve_doc_nested")
    c = find_node(h, lambda n: isinstance(n, ast.Call) and unparse(n.func) == "docname_join")
    if c is not None and len(c.args) == 2:
        add("c12-docname-join-base-is-target", "C12.R4", rf, c.args[0], 'node["reftarget"]', expect="docname_join")
    h = rf.func("MystReferenceResolver._resolve_ref_nested")
    c = find_node(h, lambda n: isinstance(n, ast.Call) and unparse(n.func) == "make_refnode")
    if c is not None and len(c.args) >= 5:
        a = [ast.get_source_segment(rf.src, x) for x in c.args]
        add("c12-label-from-to-swapped", "C12.R4", rf, c, f"make_refnode({a[0]}, {a[2]}, {a[1]}, {a[3]}, {a[4]})", expect="_resolve_ref_nested")
    # --- R5 ---
    f = tr.func("ResolveAnchorIds.apply")
    c = find_node(f, lambda n: isinstance(n, ast.Call) and unparse(n.func).endswith("pending_xref"))
    kw = [k for k in c.keywords if k.arg == "refexplicit"] if c is not None else []
    if kw:
        rest = ", ".join(f"{k.arg}={ast.get_source_segment(tr.src, k.value)}" for k in c.keywords if k.arg != "refexplicit")
        add("c12-anchor-xref-without-refexplicit", "C12.R5", tr, c, f"{unparse(c.func)}({rest})", expect="sets refexplicit")
    f = sx.func("SphinxRenderer.render_link_unknown")
    c = find_node(f, lambda n: isinstance(n, ast.Call) and unparse(n.func).endswith("pending_xref") and any(k.arg == "reftargetid" for k in n.keywords))
    if c is not None:
        parts = [(f"{k.arg}=" if k.arg else "**") + ast.get_source_segment(sx.src, k.value) for k in c.keywords if k.arg != "reftargetid"]
        add("c12-doc-xref-without-reftargetid", "C12.R5", sx, c, f"{unparse(c.func)}({', '.join(parts)})", expect="sets reftargetid", canary=True)
        kv = [k for k in c.keywords if k.arg == "reftargetid"][0]
        add("c12-doc-xref-anchor-is-whole-path", "C12.R5", sx, kv.value, "path_dest", expect="part after")
    c = find_node(f, lambda n: isinstance(n, ast.Call) and isinstance(n.func, ast.Attribute) and n.func.attr == "relfn2path")
    if c is not None:
        add("c12-relfn2path-gets-anchor-too", "C12.R5", sx, c.args[0], "destination", expect="relfn2path")
    f = sx.func("SphinxRenderer.render_link_project")
    c = find_node(f, lambda n: isinstance(n, ast.Call) and unparse(n.func).endswith("pending_xref"))
    kv = [k for k in c.keywords if k.arg == "reftarget"] if c is not None else []
    if kv:
        add("c12-project-reftarget-is-path", "C12.R5", sx, kv[0].value, "path_dest", expect="path2doc")
    # class "destination-derived value compared with a registry without percent-decoding"
    def _decoder_calls(fn):
        cs = [n for n in fn.local_nodes() if isinstance(n, ast.Call) and (dotted(n.func) or "").split(".")[-1] in DECODERS and len(n.args) == 1]
        cs.sort(key=lambda n: (n.lineno, n.col_offset))
        return cs

    f = sx.func("SphinxRenderer.render_link_path")
    dc = _decoder_calls(f)
    add("c12-path-href-not-decoded", "C12.R5", sx, dc[0] if dc else None, ast.get_source_segment(sx.src, dc[0].args[0]) if dc else "", expect="percent-decoded")
    hlp = next((m_ for m_ in corpus.cls(SPHINX_R).methods.values() if m_.name not in ("render_link_path",) and len(_decoder_calls(m_)) >= 1 and _split_receivers(m_)), None)
    if hlp is not None:
        dcs = _decoder_calls(hlp)
        add("c12-destination-path-not-decoded", "C12.R5", sx, dcs[0], ast.get_source_segment(sx.src, dcs[0].args[0]), expect="percent-decoded")
        # revert of cd1f3bc: the display helper instead of a complete decode
        add("c12-destination-decoded-for-display-only", "C12.R5", sx, dcs[0].func, "self.md.normalizeLinkText", expect="display")
        if len(dcs) > 1:
            add("c12-fragment-decoded-for-display-only", "C12.R5", sx, dcs[-1].func, "self.md.normalizeLinkText", expect="display")
        sp, recv = _split_receivers(hlp)[0]
        add("c12-destination-decoded-before-split", "C12.R5", sx, recv, f"unquote({unparse(recv)})", expect="split before decoding")
    else:
        out.append(("c12-destination-path-not-decoded", "no helper that splits and decodes the destination"))
    f = sx.func("SphinxRenderer.render_link_unknown")
    c = find_node(f, lambda n: isinstance(n, ast.Call) and unparse(n.func).endswith("pending_xref") and any(k.arg == "reftargetid" for k in n.keywords))
    if c is not None:
        kv = [k for k in c.keywords if k.arg == "reftargetid"][0]
        add("c12-anchor-from-raw-href", "C12.R5", sx, kv.value, '(token.attrGet("href") or "").partition("#")[2] or None', expect="percent-decoded")
    # class "the non-file reference loses its fragment"
    c = find_node(f, lambda n: isinstance(n, ast.Call) and unparse(n.func).endswith("pending_xref") and any(k.arg == "refdomain" and isinstance(k.value, ast.Constant) and k.value.value is None for k in n.keywords))
    kv = [k for k in c.keywords if k.arg == "reftarget"] if c is not None else []
    if kv:
        add("c12-reference-fragment-dropped", "C12.R5", sx, kv[0].value, "path_dest", expect="whole destination")
        add("c12-reference-fragment-dropped-inline", "C12.R5", sx, kv[0].value, 'destination.partition("#")[0]', expect="whole destination")
    else:
        out.append(("c12-reference-fragment-dropped", "non-doc pending_xref constructor not found"))
    # class "optional attribute read without its presence test" (statement- or expression-level guard dropped)
    f = rf.func("MystReferenceResolver._resolve_myst_ref_intersphinx")
    t = find_node(f, lambda n: isinstance(n, ast.Compare) and isinstance(n.ops[0], ast.In) and isinstance(n.left, ast.Constant) and n.left.value == "reftitle")
    add("c12-reftitle-read-unguarded", "C12.R5", rf, t, 'node.get("refexplicit")', expect="sets reftitle")
    # --- round-2 seed classes ---
    # R6: scheme prefix removal
    f = sx.func("SphinxRenderer.render_link_path")
    sl = find_node(f, lambda n: isinstance(n, ast.Subscript) and isinstance(n.slice, ast.Slice) and isinstance(n.slice.lower, ast.Constant) and n.slice.lower.value == 5)
    add("c12-path-scheme-lstrip", "C12.R6", sx, sl, f'{unparse(sl.value)}.lstrip("path:")' if sl is not None else "", expect="character-set strip")
    add("c12-path-scheme-offset-short", "C12.R6", sx, sl, f"{unparse(sl.value)}[4:]" if sl is not None else "", expect="offset equals")
    bs = corpus.mod("mdit_to_docutils.base")
    f = bs.func("DocutilsRenderer.render_link_project")
    sl = find_node(f, lambda n: isinstance(n, ast.Subscript) and isinstance(n.slice, ast.Slice) and isinstance(n.slice.lower, ast.Constant) and n.slice.lower.value == 8)
    add("c12-project-scheme-offset-docutils", "C12.R6", bs, sl, f"{unparse(sl.value)}[7:]" if sl is not None else "", expect="offset equals")
    # R7: the local '#' table is filled for explicit targets only
    f = tr.func("ResolveAnchorIds.apply")
    loop = find_node(f, lambda n: isinstance(n, ast.For) and "nametypes" in unparse(n.iter))
    guard = None
    if loop is not None:
        guard = next((x for x in loop.body if isinstance(x, ast.If) and isinstance(x.body[0], ast.Continue) and isinstance(x.test, ast.UnaryOp)), None)
    add("c12-anchor-table-guard-dropped", "C12.R7", tr, guard, "pass", expect="only for explicit targets")
    add("c12-anchor-table-guard-inverted", "C12.R7", tr, guard.test if guard is not None else None, unparse(guard.test.operand) if guard is not None else "", expect="FALSE")
    add("c12-anchor-table-from-nameids", "C12.R7", tr, loop.iter if loop is not None else None, "self.document.nameids.items()", expect="only for explicit targets")
    # R3: log_warning emits unless the target is nitpick-ignored
    f = rf.func("MystReferenceResolver.log_warning")
    body = [x for x in f.node.body if not (isinstance(x, ast.Expr) and isinstance(x.value, ast.Constant))]
    if body:
        first = body[0]
        seg = ast.get_source_segment(rf.src, first)
        ind = indent_of(f, first)
        add("c12-warning-memoised-suppression", "C12.R3", rf, first, f'if target in getattr(self, "_seen_ignored", ()):\n{ind}    return\n{ind}' + seg, expect="nitpick_ignore match")
        add("c12-warning-needs-target", "C12.R3", rf, first, f"if not target:\n{ind}    return\n{ind}" + seg, expect="nitpick_ignore match")
    em = _stmt_of(f, lambda n: isinstance(n, ast.Expr) and isinstance(n.value, ast.Call) and isinstance(n.value.func, ast.Attribute) and n.value.func.attr == "warning" and any(k.arg == "subtype" for k in n.value.keywords))
    if em is not None:
        seg = ast.get_source_segment(rf.src, em)
        add("c12-warning-only-when-nitpicky", "C12.R3", rf, em, "if self.config.nitpicky:\n" + indent_of(f, em) + "    " + seg, expect="nitpick_ignore match")
    else:
        out.append(("c12-warning-only-when-nitpicky", "emission statement not found"))
    # --- round-3 seed classes ---
    # R1: the local-file outcome needs a regular-file test
    f = sx.func("SphinxRenderer.render_link_unknown")
    c = find_node(f, lambda n: isinstance(n, ast.Call) and isinstance(n.func, ast.Attribute) and n.func.attr == "is_file")
    add("c12-file-test-weakened-to-exists", "C12.R1", sx, c, f"{unparse(c.func.value)}.exists()" if c is not None else "", expect="regular file")
    add("c12-file-test-os-path-exists", "C12.R1", sx, c, f"os.path.exists(str({unparse(c.func.value)}))" if c is not None else "", expect="regular file")
    # R8: slug registry keys are tested absent
    f = bs.func("compute_unique_slug")
    w = find_node(f, lambda n: isinstance(n, ast.While))
    add("c12-uniquifier-loop-capped", "C12.R8", bs, w.test if w is not None else None, f"{unparse(w.test)} and i < 100" if w is not None else "", expect="key tested absent")
    r = find_node(f, lambda n: isinstance(n, ast.Return) and isinstance(n.value, ast.Name))
    add("c12-uniquifier-result-trimmed", "C12.R8", bs, r.value if r is not None else None, f'{unparse(r.value)}.rstrip("-")' if r is not None else "", expect="key tested absent")
    f = bs.func("DocutilsRenderer.generate_heading_target")
    c = find_node(f, lambda n: isinstance(n, ast.Call) and unparse(n.func) == "compute_unique_slug")
    a = next((x for x in c.args if unparse(x) == "self._heading_slugs"), None) if c is not None else None
    add("c12-uniquifier-given-other-table", "C12.R8", bs, a, "self.document.ids", expect="key tested absent")
    # R9: label keys are lower-cased
    f = rf.func("MystReferenceResolver.resolve_myst_ref_any")
    c = find_node(f, lambda n: isinstance(n, ast.Call) and unparse(n.func) == "self._resolve_ref_nested" and len(n.args) == 2)
    add("c12-label-lookup-gets-raw-target", "C12.R9", rf, c, f"self._resolve_ref_nested({unparse(c.args[0])}, {unparse(c.args[1])}, target)" if c is not None else "", expect="lower-cased key")
    f = rf.func("MystReferenceResolver._resolve_ref_nested")
    c = find_node(f, lambda n: isinstance(n, ast.Call) and isinstance(n.func, ast.Attribute) and n.func.attr == "lower")
    add("c12-label-lookup-not-lowered", "C12.R9", rf, c, unparse(c.func.value) if c is not None else "", expect="lower-cased key")
    # --- round-4 seed classes ---
    # R4: hand-rolled docname arithmetic that forgets root-relative targets
    f = rf.func("MystReferenceResolver._resolve_doc_nested")
    c = find_node(f, lambda n: isinstance(n, ast.Call) and unparse(n.func) == "docname_join" and len(n.args) == 2)
    if c is not None:
        a0, a1 = (ast.get_source_segment(rf.src, x) for x in c.args)
        m1 = splice(rf.src, c, f"posixpath.normpath(posixpath.join(posixpath.dirname({a0}), {a1}))").replace("import re\n", "import posixpath\nimport re\n", 1)
        out.append(Mutant("c12-docname-join-hand-rolled", "C12.R4", rf.rel, m1, expect="_resolve_doc_nested"))
        m2 = splice(rf.src, c, f'os.path.normpath(os.path.join(os.path.dirname({a0}), {a1})).replace(os.sep, "/")').replace("import re\n", "import os\nimport re\n", 1)
        out.append(Mutant("c12-docname-join-os-path", "C12.R4", rf.rel, m2, expect="_resolve_doc_nested"))
    else:
        out.append(("c12-docname-join-hand-rolled", "docname_join call not found"))
    # R3: nitpick_ignore_regex entries are matched as a whole
    f = rf.func("MystReferenceResolver.log_warning")
    ops = _nitpick_regex_ops(f.local_nodes())
    tgt = next((c_ for part, op, c_ in ops if part == "target" and op == "fullmatch"), None)
    typ = next((c_ for part, op, c_ in ops if part == "type" and op == "fullmatch"), None)
    add("c12-nitpick-target-prefix-match", "C12.R3", rf, tgt.func if tgt is not None else None, "re.match", expect="target part")
    add("c12-nitpick-type-substring-match", "C12.R3", rf, typ.func if typ is not None else None, "re.search", expect="type part")
    # R3 (renderer): a destination that cannot be a path is a failure and needs its one warning
    f = sx.func("SphinxRenderer.render_link_path")
    iff = find_node(f, lambda n: isinstance(n, ast.If) and isinstance(n.test, ast.Compare) and isinstance(n.test.left, ast.Constant) and isinstance(n.test.left.value, str) and set(n.test.left.value) <= IMPOSSIBLE_PATH_CHARS and n.test.left.value)
    if iff is None:
        # since e91b267 the failure test of the path: scheme is the regular-file test
        iff = find_node(f, lambda n: isinstance(n, ast.If) and any(xref_missing_warning(x.value, f) for x in n.body if isinstance(x, ast.Expr) and isinstance(x.value, ast.Call)))
    w = next((x for x in iff.body if isinstance(x, ast.Expr) and isinstance(x.value, ast.Call) and xref_missing_warning(x.value, f)), None) if iff is not None else None
    add("c12-unusable-path-silent", "C12.R3", sx, w, "pass", expect="render_link_path")
    # revert of e91b267: a download_reference for a file that was never tested
    add("c12-path-download-without-file-test", "C12.R1", sx, iff, "pass", expect="regular file")
    f = sx.func("SphinxRenderer.render_link_project")
    h = find_node(f, lambda n: isinstance(n, ast.ExceptHandler))
    if h is not None:
        # the failed lookup (exception) path gives up without warning
        seg = "return self.render_link_url(token)"
        add("c12-project-lookup-error-silent", "C12.R3", sx, h.body[-1], seg, expect="render_link_project")
    else:
        out.append(("c12-project-lookup-error-silent", "except handler not found"))
    # --- round-5 seed classes ---
    # R10: the relative-docs setting is restored on every path
    mk = corpus.mod("mocking")
    f = mk.func("MockIncludeDirective.run")
    rst = _stmt_of(f, lambda n: isinstance(n, ast.Assign) and isinstance(n.targets[0], ast.Subscript) and isinstance(n.targets[0].slice, ast.Constant) and n.targets[0].slice.value == "relative-docs" and isinstance(n.value, ast.Name))
    if rst is not None:
        seg = ast.get_source_segment(mk.src, rst)
        add("c12-relative-docs-restore-only-when-set", "C12.R10", mk, rst, f"if {rst.value.id} is not None:\n{indent_of(f, rst)}    {seg}", expect="relative-docs")
        add("c12-relative-docs-restore-dropped", "C12.R10", mk, rst, "pass", expect="relative-docs")
        other = _stmt_of(f, lambda n: isinstance(n, ast.Assign) and isinstance(n.targets[0], ast.Name) and isinstance(n.value, ast.Call) and "relative-images" in unparse(n.value) and ".get(" in unparse(n.value))
        if other is not None:
            add("c12-relative-docs-restored-from-images", "C12.R10", mk, rst.value, other.targets[0].id, expect="relative-docs")
    else:
        out.append(("c12-relative-docs-restore-only-when-set", "restore statement not found"))
    # R8: the resolver reads the slug registry from where the renderer saved it
    g = rf.func("MystReferenceResolver.resolve_myst_ref_doc")
    rd = find_node(g, lambda n: isinstance(n, ast.Call) and isinstance(n.func, ast.Attribute) and n.func.attr == "get" and n.args and isinstance(n.args[0], ast.Constant) and n.args[0].value == "myst_slugs")
    if rd is not None and isinstance(rd.func.value, ast.Subscript):
        inner = rd.func.value
        add("c12-slug-registry-read-from-other-place", "C12.R8", rf, rd, f'{unparse(inner.value)}.get("myst_slugs", {{}}).get({unparse(inner.slice)}, {{}})', expect="read from where")
    else:
        out.append(("c12-slug-registry-read-from-other-place", "reader of the slug registry not found"))
    # --- round-6 seed class: the recorded section id is recomputed ---
    f = bs.func("DocutilsRenderer.generate_heading_target")
    stv = find_node(f, lambda n: isinstance(n, ast.Assign) and isinstance(n.targets[0], ast.Subscript) and unparse(n.targets[0].value) == "self._heading_slugs" and isinstance(n.value, ast.Tuple) and len(n.value.elts) == 3)
    if stv is not None:
        add("c12-slug-entry-id-recomputed", "C12.R8", bs, stv.value.elts[1], "nodes.make_id(implicit_text)", expect="docutils assigned")
        add("c12-slug-entry-id-is-slug", "C12.R8", bs, stv.value.elts[1], "slug", expect="docutils assigned")
    else:
        out.append(("c12-slug-entry-id-recomputed", "slug entry store not found"))
    # --- reverts of the round-10 repairs ---
    # cfc8ffd: links without text consult anonlabels too
    f = rf.func("MystReferenceResolver._resolve_ref_nested")
    fb = find_node(f, lambda n: isinstance(n, ast.If) and any(isinstance(x, ast.Attribute) and x.attr == "anonlabels" for b_ in n.body for x in ast.walk(b_)) and not any(isinstance(x, ast.Attribute) and x.attr == "labels" for b_ in n.body for x in ast.walk(b_)) and "docname" in unparse(n.test))
    add("c12-untitled-labels-not-consulted", "C12.R9", rf, fb, "pass", expect="anonlabels")
    # 7aac6f8: titles in the slug registry are re-read after the Locale transform
    f = tr.func("ResolveAnchorIds.apply")
    lp = find_node(f, lambda n: isinstance(n, ast.For) and any(isinstance(x, ast.Subscript) and isinstance(x.ctx, ast.Store) and isinstance(x.value, ast.Name) and x.value.id == "slugs" for x in ast.walk(n)))
    add("c12-slug-titles-not-refreshed", "C12.R8", tr, lp, "pass", expect="re-read")
    # class "the resolver does not take the target id from the registry entry" (decided by R8 as well as R3)
    g = rf.func("MystReferenceResolver.resolve_myst_ref_doc")
    unp = find_node(g, lambda n: isinstance(n, ast.Assign) and isinstance(n.targets[0], ast.Tuple) and len(n.targets[0].elts) == 3 and isinstance(n.value, ast.Subscript) and isinstance(n.value.value, ast.Name))
    if unp is not None:
        names = [unparse(e) for e in unp.targets[0].elts]
        add("c12-target-id-not-read-from-entry", "C12.R8", rf, unp, f"{names[1]}, {names[2]} = {unparse(unp.value.slice)}, {unparse(unp.value)}[2]", expect="recorded in the entry")
    else:
        out.append(("c12-target-id-not-read-from-entry", "slug tuple unpacking not found"))
    # --- reverts and partial weakenings of the round-14 repairs ---
    # f5a71c5: the env-level slug registry keeps the headings of the parts parsed earlier
    f = bs.func("DocutilsRenderer._render_finalise")
    lp = find_node(f, lambda n: isinstance(n, ast.For) and "myst_slugs" in unparse(n.iter) and any(isinstance(x, ast.Call) and isinstance(x.func, ast.Attribute) and x.func.attr in ("setdefault", "update") for x in ast.walk(n)))
    stw = find_node(f, lambda n: isinstance(n, ast.Assign) and isinstance(n.targets[0], ast.Subscript) and isinstance(n.targets[0].slice, ast.Constant) and n.targets[0].slice.value == "myst_slugs")
    add("c12-slug-registry-overwrites-earlier-parts", "C12.R8", bs, lp, "pass", expect="earlier parts")
    if lp is not None and stw is not None:
        lseg, sseg = ast.get_source_segment(bs.src, lp), ast.get_source_segment(bs.src, stw)
        moved = splice(splice(bs.src, stw, sseg + "\n" + indent_of(f, stw) + lseg) if stw.lineno > lp.lineno else bs.src, lp, "pass") if stw.lineno > lp.lineno else None
        if moved is not None:
            out.append(Mutant("c12-slug-registry-merged-after-store", "C12.R8", bs.rel, moved, expect="earlier parts"))
        it_call = lp.iter
        inner = it_call.func.value if isinstance(it_call, ast.Call) and isinstance(it_call.func, ast.Attribute) else it_call
        add("c12-slug-registry-merged-from-document", "C12.R8", bs, inner, 'getattr(self.document, "myst_slugs", {})', expect="earlier parts")
    # 17a3723: a given-up project: link is never rendered without text
    f = sx.func("SphinxRenderer.render_link_project")
    fill = find_node(f, lambda n: isinstance(n, ast.If) and any(isinstance(x, ast.Attribute) and x.attr == "children" for x in ast.walk(n.test)))
    add("c12-given-up-project-link-without-text", "C12.R3", sx, fill, "pass", expect="never rendered without text")
    if fill is not None:
        t = fill.test
        add("c12-given-up-link-filled-when-not-empty", "C12.R3", sx, t, unparse(t.operand) if isinstance(t, ast.UnaryOp) else f"not ({unparse(t)})", expect="never rendered without text")
        last = find_node(f, lambda n: isinstance(n, ast.Subscript) and (dotted(n.value) or "").endswith("current_node") and isinstance(n.slice, ast.UnaryOp))
        add("c12-given-up-link-inspects-the-container", "C12.R3", sx, last, unparse(last.value) if last is not None else "", expect="never rendered without text")
    # caf413b: the rewritten destination is relative to the directory of the document being built
    f = sx.func("SphinxRenderer._handle_relative_docs")
    rp = find_node(f, lambda n: isinstance(n, ast.Call) and (dotted(n.func) or "").split(".")[-1] == "relpath" and len(n.args) >= 2)
    env_name = next((st_.targets[0].id for st_ in f.local_nodes() if isinstance(st_, ast.Assign) and isinstance(st_.targets[0], ast.Name) and isinstance(st_.value, ast.Call) and "md_env" in unparse(st_.value)), None)
    if rp is not None and env_name:
        add("c12-relative-docs-relative-to-includer", "C12.R10", sx, rp.args[1], f"{env_name}[1]", expect="document being built")
        add("c12-relative-docs-relative-to-source-root", "C12.R10", sx, rp.args[1], "str(self.sphinx_env.srcdir)", expect="document being built")
    else:
        out.append(("c12-relative-docs-relative-to-includer", "relpath call not found"))
    # class "the environment gets a copy of the slug table, not the object document.myst_slugs refers to"
    f = bs.func("DocutilsRenderer._render_finalise")
    stw = find_node(f, lambda n: isinstance(n, ast.Assign) and isinstance(n.targets[0], ast.Subscript) and isinstance(n.targets[0].slice, ast.Constant) and n.targets[0].slice.value == "myst_slugs" and (dotted(n.value) or "").startswith("self."))
    if stw is not None:
        v = unparse(stw.value)
        add("c12-env-slug-table-is-a-copy", "C12.R8", bs, stw.value, f"dict({v})", expect="is the object")
        add("c12-env-slug-table-is-a-merged-copy", "C12.R8", bs, stw.value, "{**" + unparse(stw.targets[0].value) + '.get("myst_slugs", {}), **' + v + "}", expect="is the object")
    else:
        out.append(("c12-env-slug-table-is-a-copy", "env-level store of the slug table not found"))
    return out
