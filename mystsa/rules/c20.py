"""C20 - docutils security settings (raw_enabled / file_insertion_enabled) are honoured."""

from __future__ import annotations

import ast

from ..callgraph import External, Special, Unresolved, get_callgraph
from ..corpus import (
    AnchorMissing,
    Corpus,
    FunctionInfo,
    Unsupported,
    arg_or_kw,
    calls_in,
    dotted,
    enclosing_function,
    is_const,
    kwarg,
    parent,
    segment,
    short,
    splice,
    unparse,
    walk_local,
)
from ..flow import EXIT, facts, get_cfg
from ..mutant import Mutant
from ..report import Report
from .common import find_node, find_stmt, indent_of, rule

PROP = "C20"
READY = False
TECHNIQUE = (
    "CFG post-dominance of the raw filter over the render call in every front end, call-graph reachability of "
    "nodes.raw constructions, registry re-attachment and file-system reads, guard dominance in the include mock, alias checks on settings/document, sandboxed template environments"
)

META = {
    "explanation": (
        "R1: every front end - a function that obtains a markdown-it parser for a docutils-document renderer from create_md_parser "
        "(directly, through a factory/cache wrapper, a container or attribute it was stored in, or a helper that returns it) and calls its render - is followed, on every path to "
        "the normal exit, by the raw filter; the filter may sit in that function, in a helper that is always called afterwards, after "
        "the call in the callers, or at the end of the renderer's render(). The filter is a branch taken whenever the document's "
        "raw_enabled is false (the test is evaluated three-valued with the switch off and everything else unknown: a broader test such "
        "as `not (raw and other)` is accepted, an extra conjunct is a violation; truth or ==/!= tests; an identity test `is False` is "
        "rejected because 0 is a legal value), looping over all docutils.nodes.raw of the whole document (traverse/findall, no descend=False; either one loop over the "
        "document or a sweep `for root in (document, *document.footnotes, ...)` whose roots include the document; when the nodes of "
        "several - overlapping - roots are gathered into one list before any is processed, the loop must skip detached nodes or "
        "de-duplicate, else a raw node in an attached footnote is visited twice and the clean-up aborts; a sweep that skips the roots "
        "having a parent (`if root.parent is not None: continue`) is a violation - a footnote discarded with the container it was parsed "
        "into keeps that container as parent and is re-attached later; any other jump out of a sweep iteration is an ANALYSIS-ERROR), and on every "
        "iteration replacing or removing the node - a skip is accepted only for detached nodes or a tautological type test, any other "
        "skip (by the node's content, a local derived from it, or configuration) is a violation; nodes are not removed while the lazy "
        "findall() generator walks the tree; the replacement can never be None (Element.replace(old, None) is a no-op: nullable "
        "helpers such as create_warning need a guard with a fallback), is a warning-level reporter message, and is created inside the "
        "loop - one message object per refused node (a hoisted message reports N refusals once and, being one node under several "
        "parents, makes docutils' FilterMessages transform raise when report_level > 2). The replacement may be written as "
        "`parent.insert(i, message)` + `node.parent.remove(node)` in that order (the insertion point is located through the still "
        "attached node), and the per-node work may live in a helper the loop calls on every iteration (its entry-to-exit paths are "
        "judged as the iterations). Message placement: a system_message is a body element, so it is put "
        "beside the outermost TextElement around the raw node (climbing loop `while isinstance(a.parent, <classes>): a = a.parent`; the "
        "classes - name, tuple or `A | B` union - must contain TextElement and field: a message between a field's name and body breaks "
        "the two-children shape that Sphinx' metadata collector and docutils' DocInfo rely on), "
        "added to the document, or replaces the node in place only under `not isinstance(node.parent, TextElement)`; an unguarded "
        "in-place replacement puts the message into titles/paragraphs (document title, toc) and is a violation. Whenever the raw node is "
        "removed, a field_name it leaves empty is refilled: after the removal, `if isinstance(P, field_name) and not P.children: "
        "P.append(...)` with P the parent captured before the removal and no further condition (DocInfo reads field[0][0]). "
        "The climb may live in a helper `a = anchor_of(node)` that returns the climbed node. The guard and the sweep may be split: "
        "`if not raw_enabled: sweep(document)` with an unguarded helper is judged as guard (at the call site) plus sweep (in the helper). "
        "R2: no function reachable from a registered transform / post-transform / Sphinx event handler, or from what the entry calls "
        "after the filter, constructs nodes.raw (directly, through an alias or a package subclass); every construction is in a "
        "render-phase function or unreachable. Reachability includes the renderer's dynamic dispatch wherever it is written. "
        "Every document registry that the renderer fills (note_footnote -> footnotes, note_autofootnote -> autofootnotes, ...) and "
        "from which a transform later attaches nodes to the document (CollectFootnotes) is walked by the filter too - a footnote "
        "rendered into directive content that the directive discards is detached when the filter runs - unless the transform skips "
        "detached nodes. "
        "R3: in the include mock every call that reads the file system (directly or through callees) is dominated by the "
        "file_insertion_enabled truth test whose failing branch refuses at warning level (raise DirectiveError(2) or return a "
        "reporter warning; helper-held or branch-swapped guards are followed); every other file-system read reachable from "
        "run_directive or from the run() of any registered / instantiated directive stand-in (search stopped where markdown text "
        "re-enters the renderer) is behind its own test or only called from guarded sites. "
        "R4: every call of the nested rST parser runs on a document whose settings are the outer document's object, a copy of it, a "
        "complete fill or at least both switches copied (a setdefault merge or fresh defaults are violations); when the outer settings are "
        "handed to a package helper that makes the nested document (make_document(..., settings=...)), that parameter must decide the "
        "settings of every document the helper returns: the parameter itself, a copy, or a merge in which it is the last - winning - "
        "operand ({**defaults, **given}, defaults | given, dict(defaults, **given)); a merge the new parser defaults win, or a "
        "parameter that is ignored, is a violation, any other shape an ANALYSIS-ERROR; MockRSTParser passes its "
        "document on; every mock handed to directives/roles exposes the renderer's real document and wraps the running renderer. "
        "R5: no store, setattr, override-dict entry or keyword argument in the package gives either switch a value other than False "
        "(copying the same switch from another settings object is allowed). "
        "R6: every jinja2 environment constructed in code reachable from a front end's render (the substitution extension evaluates "
        "expressions written in the document) is SandboxedEnvironment/ImmutableSandboxedEnvironment or a package subclass that only restricts the sandbox (an override of "
        "is_safe_attribute/is_safe_callable must return False or conjoin/guard its result with super()'s verdict; getattr/getitem/call "
        "overrides must delegate to super()); module-level (shared) environments are judged like local ones, and a context that can hold the live environment "
        "must not be copied into the globals of a shared environment (they outlive the guard and the parse); "
        "a template-context entry holding the live Sphinx environment (sphinx_env / "
        "settings.env / its app) is dominated by truth tests of BOTH switches - the sandbox cannot police application objects, "
        "which reach the file system and exec(); "
        "jinja2.Environment, NativeEnvironment or jinja2.Template there is a violation (expressions reach open() and the settings "
        "object through __globals__)."
    ),
    "not_decided": (
        "that third-party directives/roles honour the settings they are shown (docutils' raw/include/csv-table and Sphinx's "
        "literalinclude do, by reading); that every raw node built during rendering is attached to the tree when the filter runs; "
        "the writer's own file "
        "access (image embedding consults file_insertion_enabled itself); file reads that are not made by a directive (the inventory "
        "loader, fed from global-only configuration, is listed); a filter written as a side-effect comprehension (ANALYSIS-ERROR); "
        "markup carried by nodes other than nodes.raw (e.g. attribute names of nodes.meta); what jinja2's sandbox itself lets through"
    ),
    "trusted_base": [
        "CPython ast",
        "call graph special edges (DESIGN E3) plus the module's own dispatch edges for `<x>.rules[...]`, `<x>.rules.get(...)`, getattr(<x>, f'render_...')",
        "catalogue of file-system read calls (open, io.open, codecs.open, urlopen, FileInput, .read_text/.read_bytes/.open/.read/.readlines)",
        "docutils facts: note_footnote/note_autofootnote/note_symbol_footnote/note_citation fill document.footnotes/autofootnotes/symbol_footnotes/citations; system_message is a body element; jinja2.sandbox.SandboxedEnvironment refuses unsafe attribute access",
        "docutils facts: Element.replace(old, None) is a no-op; findall() is a lazy generator, traverse() returns a list; the switches default to the ints 1/0",
    ],
    "assumptions": [
        "docutils/Sphinx directives check document.settings themselves when given the real document",
        "reporter calls return a system_message node (halt_level above WARNING)",
        "raw nodes are instances of docutils.nodes.raw or of a package subclass of it",
    ],
}

RAW_CLASS = "docutils.nodes.raw"
_BUILTINS = set(dir(__builtins__)) if not isinstance(__builtins__, dict) else set(__builtins__)

# ---------------------------------------------------------------------------
# small helpers


def _block_def(name: str, at: ast.AST) -> ast.expr | None:
    """Value of the closest straight-line assignment ``name = ...`` that precedes ``at`` in one of
    its enclosing statement lists (a definite reaching definition)."""
    node = at
    p = parent(node)
    while p is not None and not isinstance(p, (ast.FunctionDef, ast.AsyncFunctionDef, ast.Lambda, ast.ClassDef, ast.Module)):
        for fld in ("body", "orelse", "finalbody"):
            blk = getattr(p, fld, None)
            if isinstance(blk, list) and node in blk:
                for st in reversed(blk[: blk.index(node)]):
                    if isinstance(st, ast.Assign) and any(isinstance(t, ast.Name) and t.id == name for t in st.targets):
                        return st.value
                    if any(isinstance(x, ast.Name) and x.id == name and isinstance(x.ctx, ast.Store) for x in ast.walk(st)):
                        return None  # written in a nested construct: not straight-line
        node = p
        p = parent(p)
    if p is not None and isinstance(p, (ast.FunctionDef, ast.AsyncFunctionDef)) and node in p.body:
        for st in reversed(p.body[: p.body.index(node)]):
            if isinstance(st, ast.Assign) and any(isinstance(t, ast.Name) and t.id == name for t in st.targets):
                return st.value
            if any(isinstance(x, ast.Name) and x.id == name and isinstance(x.ctx, ast.Store) for x in ast.walk(st)):
                return None
    return None


def _deref(e: ast.expr | None, fi: FunctionInfo, depth: int = 0) -> ast.expr | None:
    """Follow a local name to its value: the closest preceding straight-line assignment, or the
    only assignment in the function (aliases such as ``settings = document.settings``)."""
    if e is None or depth > 4 or not isinstance(e, ast.Name):
        return e
    if parent(e) is not None:
        v = _block_def(e.id, e)
        if v is not None:
            return _deref(v, fi, depth + 1)
    f = fi
    while f is not None:
        if e.id in f.params:
            return e
        f = f.parent_func
    defs = [
        n
        for n in fi.local_nodes()
        if isinstance(n, (ast.Assign, ast.AnnAssign))
        and any(isinstance(t, ast.Name) and t.id == e.id for t in (n.targets if isinstance(n, ast.Assign) else [n.target]))
    ]
    other = [
        n
        for n in fi.local_nodes()
        if isinstance(n, ast.Name) and n.id == e.id and isinstance(n.ctx, ast.Store) and not isinstance(parent(n), (ast.Assign, ast.AnnAssign))
    ]
    if len(defs) == 1 and not other and defs[0].value is not None:
        return _deref(defs[0].value, fi, depth + 1)
    return e


def _setting_root(e: ast.expr | None, name: str, fi: FunctionInfo) -> ast.expr | None:
    """``R`` when ``e`` reads ``R.settings.<name>`` (attribute or getattr form, through local aliases)."""
    e = _deref(e, fi)
    if isinstance(e, ast.Call) and dotted(e.func) == "getattr" and len(e.args) >= 2 and is_const(e.args[1], name):
        s = _deref(e.args[0], fi)
        if isinstance(s, ast.Attribute) and s.attr == "settings":
            return _deref(s.value, fi)
        return None
    if isinstance(e, ast.Attribute) and e.attr == name:
        s = _deref(e.value, fi)
        if isinstance(s, ast.Attribute) and s.attr == "settings":
            return _deref(s.value, fi)
    return None


def _mentions_setting(e: ast.expr, name: str, fi: FunctionInfo) -> bool:
    for n in ast.walk(e):
        if isinstance(n, (ast.Call, ast.Attribute, ast.Name)) and _setting_root(n, name, fi) is not None:
            return True
    return False


def _raw_names(corpus: Corpus) -> set[str]:
    """Fully dotted names that denote docutils.nodes.raw: the class itself, module-level aliases
    (``Raw = nodes.raw``) and package classes derived from it."""

    def compute():
        names = {RAW_CLASS}
        changed = True
        while changed:
            changed = False
            for m in corpus.modules.values():
                for nm, val in m.const_nodes.items():
                    d = dotted(val)
                    if d and m.resolve(d) in names and f"{m.name}.{nm}" not in names:
                        names.add(f"{m.name}.{nm}")
                        changed = True
            for ci in corpus.all_classes():
                full = f"{ci.module.name}.{ci.name}"
                if full not in names and any(b in names for b in ci.bases):
                    names.add(full)
                    changed = True
        return names

    return corpus.cache("c20-raw-names", compute)


def _is_raw_ctor(call: ast.Call, fi: FunctionInfo, corpus: Corpus | None = None) -> bool:
    d = dotted(call.func)
    if not d:
        return False
    full = fi.module.resolve(d)
    if full == RAW_CLASS:
        return True
    if corpus is not None:
        names = _raw_names(corpus)
        if full in names:
            return True
        ci = corpus.find_class(full)
        if ci is not None and f"{ci.module.name}.{ci.name}" in names:
            return True
        # local alias: R = nodes.raw
        if isinstance(call.func, ast.Name) and full == d and d not in _BUILTINS:
            v = _deref(call.func, fi)
            dv = dotted(v) if v is not call.func else None
            if dv and fi.module.resolve(dv) in names:
                return True
    return False


def _norm_atom(e: ast.expr, pol: bool, identity: bool = False) -> tuple[ast.expr, bool]:
    """`X == False`, `X != True`, ... -> (X, polarity): for the values the switches take (bools and the
    ints 1/0 that docutils uses as defaults) an equality comparison with a bool literal is the truth test.
    Identity comparisons (`X is False`) are *not* equivalent - 0 is a legal 'off' value - and are only
    normalised on request (``identity=True``), for callers that report them."""
    if isinstance(e, ast.Compare) and len(e.ops) == 1 and isinstance(e.comparators[0], ast.Constant) and isinstance(e.comparators[0].value, bool):
        c = e.comparators[0].value
        op = e.ops[0]
        if isinstance(op, ast.Eq) or (identity and isinstance(op, ast.Is)):
            return e.left, (pol if c else not pol)
        if isinstance(op, ast.NotEq) or (identity and isinstance(op, ast.IsNot)):
            return e.left, ((not pol) if c else pol)
    return e, pol


def _identity_tests(test: ast.expr, name: str, fi: FunctionInfo) -> list[ast.Compare]:
    """`<switch> is False` / `<switch> is not False` atoms: they let the int 0 through as 'enabled'."""
    out = []
    for atom in _leaves(test):
        if isinstance(atom, ast.Compare) and len(atom.ops) == 1 and isinstance(atom.ops[0], (ast.Is, ast.IsNot)) and isinstance(atom.comparators[0], ast.Constant) and atom.comparators[0].value is False:
            if _setting_root(atom.left, name, fi) is not None:
                out.append(atom)
    return out


def _facts(test: ast.expr, pol: bool, identity: bool = False) -> list[tuple[ast.expr, bool]]:
    return [_norm_atom(e, p, identity) for e, p in facts(test, pol)]


def _guard_facts(cfg, st) -> list[tuple[ast.expr, bool]]:
    return [_norm_atom(e, p) for e, p in cfg.guards(st)]


def _leaves(test: ast.expr) -> list[ast.expr]:
    if isinstance(test, ast.UnaryOp) and isinstance(test.op, ast.Not):
        return _leaves(test.operand)
    if isinstance(test, ast.BoolOp):
        return [x for v in test.values for x in _leaves(v)]
    return [test]


def _is_raw_class(e: ast.expr | None, fi: FunctionInfo) -> bool:
    d = dotted(e) if e is not None else None
    return bool(d) and fi.module.resolve(d) == RAW_CLASS


def _own_calls(fi: FunctionInfo) -> list[ast.Call]:
    c = fi.__dict__.get("_c20_calls")
    if c is None:
        c = calls_in(fi.node.body) if fi.is_lambda else calls_in(fi.node, into_lambdas=False)
        fi.__dict__["_c20_calls"] = c
    return c


def _renderer_classes(corpus: Corpus) -> set[str]:
    base = corpus.cls("mdit_to_docutils.base:DocutilsRenderer")
    return {base.fq} | {c.fq for c in corpus.subclasses(base)}


# ---------------------------------------------------------------------------
# reachability that does not depend on *where* the renderer's dynamic dispatch is written


def _dispatch_targets(corpus: Corpus, call: ast.Call, fi: FunctionInfo) -> list[FunctionInfo]:
    """Targets of the renderer's dynamic dispatch wherever it is written (the engine freezes the special
    edge on two caller names; a helper extracted from them must keep it):
    ``<x>.rules[<key>](...)`` and ``getattr(<x>, f"render_...")(...)`` -> every render_* method."""
    f = call.func
    hit = False
    if isinstance(f, ast.Attribute) or (isinstance(f, ast.Name) and f.id in fi.params):
        return []  # ordinary method / parameter call: never the dispatch
    if isinstance(f, ast.Subscript):
        v = _deref(f.value, fi)
        if isinstance(v, ast.Attribute) and v.attr == "rules":
            hit = True
    elif isinstance(f, ast.Call) and dotted(f.func) == "getattr" and len(f.args) >= 2:
        a = f.args[1]
        if isinstance(a, ast.JoinedStr) and a.values and isinstance(a.values[0], ast.Constant) and str(a.values[0].value).startswith("render_"):
            hit = True
    elif isinstance(f, ast.Call) and isinstance(f.func, ast.Attribute) and f.func.attr in ("get", "__getitem__", "pop"):
        v = _deref(f.func.value, fi)
        if isinstance(v, ast.Attribute) and v.attr == "rules":
            hit = True
    elif isinstance(f, ast.Name):
        v = _deref(f, fi)
        if v is not f and isinstance(v, (ast.Subscript, ast.Call)):
            fake = ast.Call(func=v, args=[], keywords=[])
            return _dispatch_targets(corpus, fake, fi)
    if not hit:
        return []

    def compute():
        base = corpus.cls("mdit_to_docutils.base:DocutilsRenderer")
        out = []
        for ci in [base] + corpus.subclasses(base):
            for n, m in ci.methods.items():
                if n.startswith("render_") and n != "render_children":
                    out.append(m)
        return out

    return corpus.cache("c20-render-methods", compute)


def _reach(corpus: Corpus, entries: list[FunctionInfo], stop=None) -> dict[str, list[str]]:
    """Like CallGraph.reachable, plus the dispatch edges of `_dispatch_targets`."""
    g = get_callgraph(corpus)
    succ_cache: dict[str, list[FunctionInfo]] = corpus.cache("c20-succ", dict)

    def succ(fi: FunctionInfo) -> list[FunctionInfo]:
        out = succ_cache.get(fi.fq)
        if out is None:
            out = [inner for inner in fi.module.functions.values() if inner.parent_func == fi]
            for call, targets in g.callees(fi):
                out.extend(g.flat_targets(targets))
                if not any(isinstance(t, Special) for t in targets):
                    out.extend(_dispatch_targets(corpus, call, fi))
            succ_cache[fi.fq] = out
        return out

    seen: dict[str, list[str]] = {}
    work = [(e, [e.fq]) for e in entries]
    while work:
        fi, chain = work.pop()
        if fi.fq in seen:
            continue
        seen[fi.fq] = chain
        if stop is not None and stop(fi):
            continue
        for t in succ(fi):
            if t.fq not in seen:
                work.append((t, chain + [t.fq]))
    return seen


# ---------------------------------------------------------------------------
# front ends: who renders markdown into a docutils document


class FrontEnd:
    def __init__(self, fi: FunctionInfo, create_call: ast.Call, render_call: ast.Call, renderer):
        self.fi = fi
        self.create_call = create_call
        self.render_call = render_call
        self.renderer = renderer  # ClassInfo


def _render_calls_on(fi: FunctionInfo, texts: set[str]) -> list[ast.Call]:
    return [c for c in _own_calls(fi) if isinstance(c.func, ast.Attribute) and c.func.attr == "render" and unparse(c.func.value) in texts]


def _binding_sites(corpus: Corpus, fi: FunctionInfo, call: ast.Call, depth: int) -> list[tuple[FunctionInfo, set[str], ast.AST]]:
    """Where the parser produced by ``call`` is held: (function, the expressions that denote it there, site).
    `x = call`; `self.attr = call` / `cache[key] = call` (plus local aliases `x = cache[key]`, `x = cache.get(key)`);
    or - when a helper returns it (directly, through a local or out of the container it stored it in) - the
    helper's call sites, up to two levels."""
    p = parent(call)
    texts: set[str] = set()
    if isinstance(p, ast.Assign) and len(p.targets) == 1:
        t = p.targets[0]
        texts.add(unparse(t))
        if not isinstance(t, ast.Name):
            # aliases of the stored parser
            for n in fi.local_nodes():
                if isinstance(n, ast.Assign) and len(n.targets) == 1 and isinstance(n.targets[0], ast.Name):
                    v = n.value
                    if unparse(v) == unparse(t):
                        texts.add(n.targets[0].id)
                    elif isinstance(t, ast.Subscript) and isinstance(v, ast.Call) and isinstance(v.func, ast.Attribute) and v.func.attr in ("get", "setdefault", "__getitem__") and unparse(v.func.value) == unparse(t.value) and v.args and unparse(v.args[0]) == unparse(t.slice):
                        texts.add(n.targets[0].id)
        returned = [n for n in fi.local_nodes() if isinstance(n, ast.Return) and n.value is not None and unparse(n.value) in texts]
        if not returned or _render_calls_on(fi, texts):
            return [(fi, texts, call)]
    elif not isinstance(p, ast.Return):
        raise Unsupported(f"{fi.module.site(call)}: the markdown-it parser is neither stored nor returned")
    if depth >= 2:
        raise Unsupported(f"{fi.module.site(call)}: parser factory nested too deeply")
    g = get_callgraph(corpus)
    out: list[tuple[FunctionInfo, set[str], ast.AST]] = []
    for cfi, ccall in g.callers().get(fi.fq, []):
        if cfi.is_lambda:
            raise Unsupported(f"{cfi.module.site(ccall)}: parser factory called from a lambda")
        out += _binding_sites(corpus, cfi, ccall, depth + 1)
    if not out:
        raise Unsupported(f"{fi.site()}: {fi.qualname} returns a markdown-it parser but nothing in the package calls it")
    return out


def front_ends(corpus: Corpus) -> tuple[list[FrontEnd], list[tuple[FunctionInfo, ast.Call, str]]]:
    """Functions that call create_md_parser(config, <docutils renderer class>) and then ``.render`` on the result."""

    def compute():
        rcls = _renderer_classes(corpus)
        fes: list[FrontEnd] = []
        others: list[tuple[FunctionInfo, ast.Call, str]] = []
        base_factory = corpus.func("parsers.mdit:create_md_parser")
        # parser factories: create_md_parser, and every function that hands one of its own parameters on
        # to a factory as the renderer class (a cache or wrapper around create_md_parser)
        factories: dict[str, tuple[int, str]] = {base_factory.fq: (1, "renderer")}
        sites: list[tuple[FunctionInfo, ast.Call, tuple[int, str]]] = []
        for _round in range(4):
            sites = []
            grew = False
            for fi in corpus.all_functions():
                if fi.is_lambda:
                    continue
                for call in _own_calls(fi):
                    d = dotted(call.func)
                    t = corpus.find_function(fi.module.resolve(d)) if d else None
                    if t is None or t.fq not in factories:
                        continue
                    idx, nm = factories[t.fq]
                    r = arg_or_kw(call, idx, nm)
                    if isinstance(r, ast.Name) and r.id in fi.params and fi.fq not in factories:
                        off = 1 if fi.cls is not None and fi.params and fi.params[0] in ("self", "cls") else 0
                        factories[fi.fq] = (fi.params.index(r.id) - off, r.id)
                        grew = True
                    sites.append((fi, call, (idx, nm)))
            if not grew:
                break
        for fi, call, (idx, nm) in sites:
            r = arg_or_kw(call, idx, nm)
            if isinstance(r, ast.Name) and r.id in fi.params and fi.fq in factories:
                continue  # the wrapper itself: judged at its call sites
            rname = fi.module.resolve(dotted(r) or "") if r is not None else ""
            ci = corpus.find_class(rname) if rname else None
            if ci is None or ci.fq not in rcls:
                others.append((fi, call, unparse(r) if r is not None else "?"))
                continue
            for hfi, texts, hsite in _binding_sites(corpus, fi, call, 0):
                renders = _render_calls_on(hfi, texts)
                if len(renders) != 1:
                    raise Unsupported(f"{hfi.module.site(hsite)}: expected exactly one render call on `{sorted(texts)[0]}`, found {len(renders)}")
                fes.append(FrontEnd(hfi, call, renders[0], ci))
        return fes, others

    return corpus.cache("c20-front-ends", compute)


# ---------------------------------------------------------------------------
# R1 the raw filter


def _eval3(e: ast.expr, switch: str, fi: FunctionInfo):
    """Kleene evaluation of a test with ``switch`` off (False) and every other atom unknown (None)."""
    if isinstance(e, ast.UnaryOp) and isinstance(e.op, ast.Not):
        v = _eval3(e.operand, switch, fi)
        return None if v is None else (not v)
    if isinstance(e, ast.BoolOp):
        vals = [_eval3(v, switch, fi) for v in e.values]
        if isinstance(e.op, ast.And):
            return False if any(v is False for v in vals) else (None if any(v is None for v in vals) else True)
        return True if any(v is True for v in vals) else (None if any(v is None for v in vals) else False)
    if isinstance(e, ast.Constant):
        return bool(e.value)
    atom, pol = _norm_atom(e, True)  # equality with a bool literal only; identity tests stay unknown
    if _setting_root(atom, switch, fi) is not None:
        return not pol  # the switch is False: `switch` -> False, `switch == False` -> True
    return None


def _is_nonempty_test(t: ast.expr, name: str) -> bool:
    """`name`, `len(name)`, `len(name) > 0`, `name != []`: true exactly when the collection has elements."""
    if isinstance(t, ast.Name):
        return t.id == name
    if isinstance(t, ast.Call) and dotted(t.func) == "len" and len(t.args) == 1:
        return isinstance(t.args[0], ast.Name) and t.args[0].id == name
    if isinstance(t, ast.Compare) and len(t.ops) == 1:
        l, r = t.left, t.comparators[0]
        if isinstance(t.ops[0], (ast.Gt, ast.NotEq)) and isinstance(r, ast.Constant) and r.value == 0:
            return _is_nonempty_test(l, name) and isinstance(l, ast.Call)
        if isinstance(t.ops[0], ast.GtE) and isinstance(r, ast.Constant) and r.value == 1:
            return _is_nonempty_test(l, name) and isinstance(l, ast.Call)
        if isinstance(t.ops[0], ast.NotEq) and isinstance(r, (ast.List, ast.Tuple)) and not r.elts:
            return isinstance(l, ast.Name) and l.id == name
    return False


def _only_parent_test(t: ast.expr, v: str) -> bool:
    """The test only asks whether ``v.parent`` exists (a detached node cannot reach the output)."""
    names = [x for x in ast.walk(t) if isinstance(x, ast.Name)]
    if not names or any(x.id != v for x in names):
        return False
    for x in names:
        px = parent(x)
        if not (isinstance(px, ast.Attribute) and px.attr == "parent"):
            return False
        ppx = parent(px)
        if isinstance(ppx, ast.Attribute):  # v.parent.something
            return False
    return not any(isinstance(x, ast.Call) for x in ast.walk(t))


def _alternatives(w: ast.expr | None, fi: FunctionInfo) -> list[ast.expr] | None:
    """When ``w`` is a local name that `_deref` cannot resolve to one value: the values of all its plain
    assignments inside the loop (or function) the use sits in; None if it has other kinds of definitions."""
    if not isinstance(w, ast.Name) or any(w.id in f.params for f in _chain(fi)):
        return None
    scope: ast.AST = fi.node
    for a in _ancestors_local(w) if parent(w) is not None else []:
        if isinstance(a, (ast.For, ast.While)):
            scope = a
            break
    vals: list[ast.expr] = []
    for n in walk_local(scope):
        if isinstance(n, ast.Assign) and any(isinstance(t, ast.Name) and t.id == w.id for t in n.targets):
            vals.append(n.value)
        elif isinstance(n, ast.Name) and n.id == w.id and isinstance(n.ctx, ast.Store) and not isinstance(parent(n), ast.Assign):
            return None
    return vals or None


def _is_create_warning(w: ast.expr, fi: FunctionInfo, corpus: Corpus | None) -> bool:
    if corpus is None or not isinstance(w, ast.Call):
        return False
    g = get_callgraph(corpus)
    ts = [t for t in g.resolve_call(w, fi) if isinstance(t, FunctionInfo)]
    return bool(ts) and all(t.name == "create_warning" for t in ts)


def _returns_none(t: FunctionInfo) -> str | None:
    """Reason why a package function may return None, or None."""
    if t.is_lambda:
        return "lambda" if isinstance(t.node.body, ast.Constant) and t.node.body.value is None else None
    ann = getattr(t.node, "returns", None)
    if ann is not None:
        a = unparse(ann).strip("'\"")
        if "None" in a or "Optional" in a:
            return f"{t.qualname}() is declared `-> {a}`"
    for n in t.local_nodes():
        if isinstance(n, ast.Return) and (n.value is None or (isinstance(n.value, ast.Constant) and n.value.value is None)):
            return f"{t.qualname}() has a `return None` path (line {n.lineno})"
    if not any(isinstance(n, ast.Return) for n in t.local_nodes()):
        return f"{t.qualname}() has no return statement"
    return None


def _nullability(w: ast.expr | None, fi: FunctionInfo, corpus: Corpus | None, depth: int = 0) -> tuple[str, str]:
    """('never'|'maybe'|'unknown', reason) - can the expression evaluate to None?"""
    w = _deref(w, fi)
    if w is None or depth > 4:
        return "unknown", ""
    alts = _alternatives(w, fi)
    if alts is not None:
        res = [_nullability(a_, fi, corpus, depth + 1) for a_ in alts]
        for kind in ("maybe", "unknown"):
            for k_, why in res:
                if k_ == kind:
                    return kind, why
        return "never", ""
    if isinstance(w, ast.Constant):
        return ("maybe", "it is the literal None") if w.value is None else ("never", "")
    if isinstance(w, ast.IfExp):
        parts = [_nullability(w.body, fi, corpus, depth + 1), _nullability(w.orelse, fi, corpus, depth + 1)]
    elif isinstance(w, ast.BoolOp):
        vals = w.values if isinstance(w.op, ast.And) else w.values[-1:]
        parts = [_nullability(v, fi, corpus, depth + 1) for v in vals]
        if isinstance(w.op, ast.And) and len(w.values) > 1:
            parts.append(("maybe", f"`{short(w, 40)}` yields its first falsy operand"))
    else:
        parts = None
    if parts is not None:
        for kind in ("maybe", "unknown"):
            for k_, why in parts:
                if k_ == kind:
                    return kind, why
        return "never", ""
    if isinstance(w, ast.Call):
        if isinstance(w.func, ast.Attribute) and unparse(w.func.value).endswith("reporter"):
            return "never", ""
        d = dotted(w.func) or ""
        full = fi.module.resolve(d) if d else ""
        if full.startswith("docutils.nodes."):
            return "never", ""
        if corpus is not None:
            g = get_callgraph(corpus)
            ts = g.resolve_call(w, fi)
            fts = [t for t in ts if isinstance(t, FunctionInfo)]
            if fts and len(fts) == len(ts):
                for t in fts:
                    why = _returns_none(t)
                    if why:
                        return "maybe", why
                return "never", ("typed-warning" if all(t.name == "create_warning" for t in fts) else "")
        return "unknown", ""
    return "unknown", ""


class Filter:
    """One ``if <raw disabled>: for n in <doc>.findall(nodes.raw): replace`` construct, analysed."""

    def __init__(self, fi: FunctionInfo, ifnode: ast.If, corpus: Corpus | None = None):
        self.fi = fi
        self.corpus = corpus
        self.ifnode = ifnode
        self.root: str | None = None
        self.problems: list[tuple[str, str, ast.AST]] = []  # (aspect, message, node)
        self.oks: list[tuple[str, str, ast.AST]] = []
        self.loop: ast.For | None = None
        self.lazy = False
        self.swept_registries: set[str] = set()
        self._flat_roots = None
        self.notes: list[tuple[str, ast.AST]] = []
        self._analyse()

    # aspects: test, coverage, every-node, reported
    def _analyse(self) -> None:
        fi, ifn = self.fi, self.ifnode
        cfg = get_cfg(fi)
        ident = _identity_tests(ifn.test, "raw_enabled", fi)
        reads = [x for x in _leaves(ifn.test) if _setting_root(_norm_atom(x, True, identity=True)[0], "raw_enabled", fi) is not None]
        if not reads:
            raise Unsupported(f"{fi.module.site(ifn)}: raw_enabled test `{short(ifn.test, 70)}` is not built from plain truth tests of the switch")
        roots = {unparse(_setting_root(_norm_atom(x, True, identity=True)[0], "raw_enabled", fi)) for x in reads}
        if len(roots) != 1:
            raise Unsupported(f"{fi.module.site(ifn)}: raw_enabled is read from several objects ({sorted(roots)})")
        root = _setting_root(_norm_atom(reads[0], True, identity=True)[0], "raw_enabled", fi)
        self.root = unparse(root)
        # three-valued evaluation of the test with the switch off and everything else unknown:
        # True -> the body runs whenever raw is disabled (possibly more often: harmless for this property),
        # False -> the else branch does, unknown -> the filter depends on something besides the switch
        val = _eval3(ifn.test, "raw_enabled", fi)
        others = [x for x in _leaves(ifn.test) if x not in reads]
        if val is True:
            branch, edge = ifn.body, ("T", ifn)
        elif val is False:
            branch, edge = ifn.orelse, ("F", ifn)
        else:
            # keep analysing the branch that holds the loop so that the other aspects are still judged
            neg = any(not pol for e_, pol in _facts(ifn.test, True, identity=True) if _setting_root(e_, "raw_enabled", fi) is not None)
            branch, edge = (ifn.body, ("T", ifn)) if neg or not ifn.orelse else (ifn.orelse, ("F", ifn))
            # prefer the side that actually holds a loop over raw nodes (early-return forms: the loop follows the `if`)
            for cand_edge, cand_branch in ((("T", ifn), ifn.body), (("F", ifn), ifn.orelse)):
                if any(isinstance(n, ast.For) and n in cfg.succ and cfg.dominates(cand_edge, n) and self._raw_iter(n) is not None for n in fi.local_nodes()):
                    branch, edge = cand_branch, cand_edge
                    break
        if ident:
            self.problems.append(("test", f"`{short(ident[0], 60)}` is an identity test: raw_enabled = 0 (a legal 'off' value; docutils' own defaults for the switches are the ints 1/0) is not `False`, so the filter is skipped and every raw node survives", ident[0]))
        elif val is None:
            self.problems.append(("test", "with raw disabled the raw filter still depends on " + ", ".join(f"`{short(x, 50)}`" for x in others[:3]) + f" (test `{short(ifn.test, 70)}`): when that makes the test fail every raw node survives", ifn))
        elif others:
            self.oks.append(("test", f"taken whenever {self.root}.settings.raw_enabled is false (also when {', '.join(short(x, 40) for x in others[:2])} says so: broader, which this property allows)", ifn))
        else:
            self.oks.append(("test", f"taken exactly when {self.root}.settings.raw_enabled is false", ifn))
        # the document the settings were read from must be a parameter or the renderer's document
        ok_root = (isinstance(root, ast.Name) and root.id in fi.params and root.id != "self") or self.root == "self.document"
        if not ok_root:
            raise Unsupported(f"{fi.module.site(ifn)}: raw_enabled is read from `{self.root}`, which is neither a parameter nor self.document")
        # the loop: any `for` that only runs when raw is disabled (nested in the branch, or after an early return)
        loops = [n for n in fi.local_nodes() if isinstance(n, ast.For) and n in cfg.succ and cfg.dominates(edge, n)]
        cands = []
        for lp in loops:
            info = self._raw_iter(lp)
            if info is not None:
                cands.append((lp, info))
        if not cands and self.corpus is not None:
            # the guard stays at the call site and the sweep lives in an (unguarded) helper:
            # `if not raw_enabled: remove_raw_nodes(document)` - the helper's body is the guarded branch
            g = get_callgraph(self.corpus)
            for st_ in [n for n in cfg.nodes if isinstance(n, ast.stmt) and not isinstance(n, (ast.If, ast.For, ast.While, ast.Try, ast.With)) and cfg.dominates(edge, n) and cfg.postdominates(n, edge)]:
                for c_ in calls_in(st_, into_lambdas=False):
                    ts_ = g.resolve_call(c_, fi)
                    if len(ts_) != 1 or not isinstance(ts_[0], FunctionInfo) or ts_[0].is_lambda or ts_[0].fq == fi.fq:
                        continue
                    h_ = ts_[0]
                    off_ = 1 if h_.cls is not None and h_.params and h_.params[0] in ("self", "cls") else 0
                    proot = None
                    for i_, a_ in enumerate(c_.args):
                        if unparse(_deref(a_, fi)) == self.root and i_ + off_ < len(h_.params):
                            proot = h_.params[i_ + off_]
                    for kw_ in c_.keywords:
                        if kw_.arg and unparse(_deref(kw_.value, fi)) == self.root:
                            proot = kw_.arg
                    if proot is None:
                        continue
                    hcfg = get_cfg(h_)
                    saved_fi = self.fi
                    self.fi = h_
                    hl = [(n, self._raw_iter(n)) for n in h_.local_nodes() if isinstance(n, ast.For) and n in hcfg.succ]
                    hl = [(n, i) for n, i in hl if i is not None]
                    if not hl:
                        self.fi = saved_fi
                        continue
                    # from here on the helper is the function under analysis, its entry the guarded edge
                    self.notes.append((f"the sweep runs in {h_.qualname}(), called under this guard", c_))
                    fi, cfg, edge = h_, hcfg, "ENTRY"
                    self.root = proot
                    loops = [n for n, _ in hl]
                    cands = hl
                    break
                if cands:
                    break
        if not cands:
            trav = [lp for lp in loops if "traverse" in unparse(lp.iter) or "findall" in unparse(lp.iter)]
            if trav:
                self.problems.append(("coverage", f"the filter loop `for ... in {short(trav[0].iter, 60)}` does not enumerate docutils.nodes.raw", trav[0]))
                return
            region_stmts = [n for n in cfg.nodes if isinstance(n, ast.stmt) and cfg.dominates(edge, n) and ifn.lineno <= getattr(n, "lineno", 0) <= ifn.end_lineno]
            if edge[0] in ("T", "F") and not any(isinstance(x, (ast.Call, ast.For, ast.While)) for n in region_stmts for x in ast.walk(n)):
                self.problems.append(("coverage", "the branch taken when raw content is disabled neither sweeps the raw nodes nor calls anything that does: every raw node survives", ifn))
                return
            raise Unsupported(f"{fi.module.site(ifn)}: no loop over nodes.raw found under the raw_enabled test (rewritten in an unknown idiom)")
        if len(cands) > 1:
            raise Unsupported(f"{fi.module.site(ifn)}: several loops over nodes.raw under the raw_enabled test")
        lp, (recv, call, lazy) = cands[0]
        self.loop = lp
        self.lazy = lazy
        anchor: ast.AST = lp
        if not cfg.postdominates(lp, edge) and self._root_loop(lp, recv) is None:
            # `nodes_ = doc.findall(raw); if nodes_: ...; for n in nodes_:` - skipping the loop for an empty collection is harmless
            it_name = lp.iter.id if isinstance(lp.iter, ast.Name) else None
            cur: ast.AST = lp
            while it_name is not None:
                p_ = parent(cur)
                if p_ is ifn or p_ is None or isinstance(p_, (ast.FunctionDef, ast.AsyncFunctionDef)):
                    break
                if isinstance(p_, ast.If):
                    if cur in p_.body and _is_nonempty_test(p_.test, it_name):
                        anchor = p_
                    elif cur in p_.body and not p_.orelse:
                        extra_ = [x for x in _leaves(p_.test) if not _is_nonempty_test(x, it_name)]
                        self.problems.append(("test", f"the raw loop only runs when `{short(p_.test, 70)}`: with raw disabled and `{short(extra_[0] if extra_ else p_.test, 50)}` false every raw node survives", p_))
                        anchor = p_
                    else:
                        break
                cur = p_
            if anchor is lp or not cfg.postdominates(anchor, edge):
                raise Unsupported(f"{fi.module.site(lp)}: the raw loop is not reached on every path of the raw-disabled branch")
        cov_problem = None
        self.swept_registries: set[str] = set()
        outer = self._root_loop(lp, recv)
        flat = getattr(self, "_flat_roots", None)
        if flat is not None and isinstance(recv, ast.Name) and recv.id == flat[1]:
            self._roots_expr = flat[0]
        else:
            flat = None
        if outer is not None or flat is not None:
            # `for root in (document, *document.footnotes, ...): for node in root.findall(nodes.raw):`
            elts = self._roots_expr.elts
            plain = [unparse(_deref(e_, fi)) for e_ in elts if not isinstance(e_, ast.Starred)]
            for e_ in elts:
                if isinstance(e_, ast.Starred):
                    for x in ast.walk(e_.value):
                        if isinstance(x, ast.Attribute) and unparse(x.value) == self.root:
                            self.swept_registries.add(x.attr)
            if self.root not in plain:
                cov_problem = f"the swept roots `{short(self._roots_expr, 60)}` do not include the whole document `{self.root}`"
            if flat is not None and len(elts) > 1 and not flat[2]:
                # the roots overlap (a registered footnote normally also hangs in the document tree): gathering the raw
                # nodes of all roots before any is processed lists such a node twice
                v_ = lp.target.id if isinstance(lp.target, ast.Name) else ""
                skips_detached = any(isinstance(n, ast.If) and _only_parent_test(n.test, v_) for n in walk_local(lp))
                if skips_detached:
                    self.oks.append(("overlapping-roots", "nodes gathered from overlapping roots, detached (already processed) ones are skipped", lp))
                else:
                    self.problems.append(("overlapping-roots", f"the raw nodes of all roots `{short(self._roots_expr, 60)}` are collected before any is processed: a raw node inside a footnote that is attached to the document is listed once for the document and once for the registry; its second visit finds `parent` None and the clean-up aborts (AttributeError) instead of processing the rest of the document normally", lp))
            if outer is not None and anchor is lp:
                anchor = outer
                if not cfg.postdominates(outer, edge):
                    raise Unsupported(f"{fi.module.site(outer)}: the sweep over the roots is not reached on every path of the raw-disabled branch")
        elif unparse(recv) != self.root:
            cov_problem = f"the filter enumerates raw nodes of `{short(recv, 40)}`, not of the whole document `{self.root}`"
        for kw in call.keywords:
            if kw.arg == "descend" and is_const(kw.value, False):
                cov_problem = "the filter passes descend=False: nested raw nodes are not visited"
            elif kw.arg in ("siblings", "ascend") and not is_const(kw.value, False):
                cov_problem = f"the filter passes {kw.arg}=...: it no longer walks the document subtree only"
            elif kw.arg not in ("condition", "include_self", "descend", "siblings", "ascend"):
                raise Unsupported(f"{fi.module.site(call)}: unknown argument {kw.arg} in the raw traversal")
        if len(call.args) > 1:
            raise Unsupported(f"{fi.module.site(call)}: positional traversal flags not understood")
        if cov_problem:
            self.problems.append(("coverage", cov_problem, lp))
        else:
            self.oks.append(("coverage", f"loops over every nodes.raw below {self.root}", lp))
        self._loop_body(lp, cfg)

    def _root_loop(self, lp: ast.For, recv: ast.expr | None) -> ast.For | None:
        """The enclosing `for <recv> in (<literal tuple/list of roots>)` when the raw loop walks one root per iteration."""
        if not isinstance(recv, ast.Name):
            return None
        for a in _ancestors_local(lp):
            if isinstance(a, ast.For) and isinstance(a.target, ast.Name) and a.target.id == recv.id:
                it_ = _deref(a.iter, self.fi)
                if isinstance(it_, (ast.Tuple, ast.List)) and it_.elts and not a.orelse:
                    self._roots_expr = it_
                    # the inner loop must run in every iteration of the outer one
                    jumps = [n for n in walk_local(a) if isinstance(n, (ast.Break, ast.Continue, ast.Return)) and not any(x is lp for x in _ancestors_local(n))]
                    if a.body and (a.body[0] is lp or lp in a.body) and not jumps:
                        return a
                    if lp in a.body and jumps and self._attached_root_skips(a, lp, recv.id, jumps):
                        return a
                return None
        return None

    def _attached_root_skips(self, a: ast.For, lp: ast.For, root_var: str, jumps: list) -> bool:
        """Every jump out of an iteration of the root sweep is `if <root has a parent>: continue` ahead of the raw loop.
        Having a parent is not being part of the document: a footnote that a directive parsed into a temporary container
        and discarded together with it keeps that container as parent, stays registered and is re-attached later."""
        ifs = []
        for j in jumps:
            pi = parent(j)
            if not (isinstance(j, ast.Continue) and isinstance(pi, ast.If) and pi in a.body and not pi.orelse and pi.body == [j] and a.body.index(pi) < a.body.index(lp)):
                return False
            fs = facts(pi.test, True)
            if len(fs) != 1 or not _only_parent_test(pi.test, root_var):
                return False
            t_, pol = fs[0]
            if isinstance(t_, ast.Compare) and len(t_.ops) == 1 and is_const(t_.comparators[0], None) and isinstance(t_.left, ast.Attribute):
                attached = pol if isinstance(t_.ops[0], (ast.IsNot, ast.NotEq)) else (not pol) if isinstance(t_.ops[0], (ast.Is, ast.Eq)) else None
            elif isinstance(t_, ast.Attribute):
                attached = pol
            else:
                attached = None
            if attached is not True:
                return False
            ifs.append(pi)
        if not any(asp == "registry-roots-skipped" for asp, _, _ in self.problems):
            self.problems.append(("registry-roots-skipped", f"the sweep skips every root for which `{short(ifs[0].test, 50)}`: a registered footnote that a directive discarded together with the container it was parsed into still has that container as parent, is never scanned, and is re-attached - raw nodes included - when footnotes are collected", ifs[0]))
        return True

    def _raw_iter(self, lp: ast.For):
        """(receiver, traversal call, lazy) when the loop iterates over all nodes.raw of a receiver.
        ``lazy``: the loop consumes docutils' findall() generator directly (not materialised by list()/tuple()/sorted();
        ``traverse()`` returns a list in every supported docutils)."""
        fi = self.fi
        it = _deref(lp.iter, fi)
        materialised = False
        while isinstance(it, ast.Call) and dotted(it.func) in ("list", "tuple", "reversed", "sorted", "set") and len(it.args) >= 1:
            if dotted(it.func) != "reversed":
                materialised = True
            it = _deref(it.args[0], fi)
        dedup = isinstance(it, ast.SetComp)
        if isinstance(it, (ast.ListComp, ast.SetComp)) and len(it.generators) == 1 and not it.generators[0].ifs and isinstance(it.elt, ast.Name) and unparse(it.elt) == unparse(it.generators[0].target):
            materialised = True
            it = _deref(it.generators[0].iter, fi)
        elif isinstance(it, (ast.ListComp, ast.SetComp)) and len(it.generators) == 2 and not any(g_.ifs for g_ in it.generators) and isinstance(it.elt, ast.Name) and unparse(it.elt) == unparse(it.generators[1].target) and isinstance(it.generators[0].target, ast.Name):
            # [node for root in (document, *registries) for node in root.findall(nodes.raw)]: all roots gathered up front
            roots_ = _deref(it.generators[0].iter, fi)
            if isinstance(roots_, (ast.Tuple, ast.List)) and roots_.elts:
                self._flat_roots = (roots_, it.generators[0].target.id, dedup)
                materialised = True
                it = it.generators[1].iter
        if not isinstance(it, ast.Call):
            return None
        cls = arg_or_kw(it, 0, "condition")
        if not _is_raw_class(cls, fi):
            return None
        f = it.func
        if isinstance(f, ast.Attribute) and f.attr in ("traverse", "findall"):
            return _deref(f.value, fi), it, (f.attr == "findall" and not materialised)
        if isinstance(f, ast.Call) and (dotted(f.func) or "").split(".")[-1] == "findall" and len(f.args) == 1:
            return _deref(f.args[0], fi), it, not materialised  # _compat.findall(node)(cls)
        return None

    def _is_raw_isinstance(self, t: ast.expr, v: str) -> bool:
        t_ = t.operand if isinstance(t, ast.UnaryOp) and isinstance(t.op, ast.Not) else t
        return isinstance(t_, ast.Call) and dotted(t_.func) == "isinstance" and len(t_.args) == 2 and isinstance(t_.args[0], ast.Name) and t_.args[0].id == v and _is_raw_class(t_.args[1], self.fi)

    @staticmethod
    def _derived_from(lp: ast.AST, v: str) -> set[str]:
        """Locals of the loop body computed from the loop variable (text = node.astext() ...)."""
        out: set[str] = set()
        for _ in range(4):
            for n in walk_local(lp):
                if isinstance(n, ast.Assign):
                    used = {x.id for x in ast.walk(n.value) if isinstance(x, ast.Name)}
                    if v in used or used & out:
                        for tg in n.targets:
                            for x in ast.walk(tg):
                                if isinstance(x, ast.Name):
                                    out.add(x.id)
        return out

    def _class_set(self, e: ast.expr | None) -> set[str]:
        """Resolved class names of an isinstance() class argument: a name, a tuple, or a `A | B` union."""
        if e is None:
            return set()
        if isinstance(e, ast.Tuple):
            return set().union(*[self._class_set(x) for x in e.elts]) if e.elts else set()
        if isinstance(e, ast.BinOp) and isinstance(e.op, ast.BitOr):
            return self._class_set(e.left) | self._class_set(e.right)
        e2 = _deref(e, self.fi) if isinstance(e, ast.Name) else e
        if e2 is not e and isinstance(e2, (ast.Tuple, ast.BinOp)):
            return self._class_set(e2)
        d = dotted(e)
        if d and d in self.fi.module.const_nodes and isinstance(self.fi.module.const_nodes[d], (ast.Tuple, ast.BinOp)):
            return self._class_set(self.fi.module.const_nodes[d])
        return {self.fi.module.resolve(d)} if d else set()

    def _is_text_element(self, e: ast.expr | None) -> bool:
        return "docutils.nodes.TextElement" in self._class_set(e)

    def _placement(self, call: ast.Call, kind: str, v: str, lp: ast.AST, cfg) -> None:
        """The message must end up beside, not inside, a text element (title, paragraph, ...): inline raw nodes
        (inline HTML, hard break, strikethrough) have a TextElement parent, and a system_message put there becomes
        part of the title/paragraph text (document title, table of contents, astext())."""
        fi = self.fi
        st = cfg.stmt_of(call)
        f = call.func
        holder = f.value if kind == "insert" else (f.value if f.attr == "replace" else ast.Attribute(value=f.value, attr="parent", ctx=ast.Load()))  # type: ignore[union-attr]
        text = unparse(holder)

        def not_text_guard(name: str) -> bool:
            for t, pol in cfg.guards(st):
                if not pol and isinstance(t, ast.Call) and dotted(t.func) == "isinstance" and len(t.args) == 2 and unparse(t.args[0]) == f"{name}.parent" and self._is_text_element(t.args[1]):
                    return True
            return False

        if text == self.root:
            self.oks.append(("message-placement", f"the message is added to the document `{self.root}` itself", call))
            return
        if not (isinstance(holder, ast.Attribute) and holder.attr == "parent" and isinstance(holder.value, ast.Name)):
            raise Unsupported(f"{fi.module.site(call)}: cannot tell where `{short(call, 50)}` puts the message")
        a = holder.value.id
        if a == v:
            if not_text_guard(v):
                self.oks.append(("message-placement", "in-place replacement only where the parent is not a text element", call))
            else:
                self.problems.append(("message-placement", f"`{short(call, 60)}` puts the warning where the raw node was: for inline raw nodes (inline HTML, hard line break, strikethrough) that is inside a title or paragraph, whose text (document title, table of contents, astext()) then contains the system message", call))
            return
        # a climbing variable: A = v; while isinstance(A.parent, TextElement): A = A.parent
        climbs = [
            w_ for w_ in walk_local(lp)
            if isinstance(w_, ast.While)
            and isinstance(w_.test, ast.Call) and dotted(w_.test.func) == "isinstance" and len(w_.test.args) == 2
            and unparse(w_.test.args[0]) == f"{a}.parent" and self._is_text_element(w_.test.args[1])
            and any(isinstance(b_, ast.Assign) and unparse(b_.targets[0]) == a and unparse(b_.value) == f"{a}.parent" for b_ in w_.body)
            and not w_.orelse
        ]
        starts = [n for n in walk_local(lp) if isinstance(n, ast.Assign) and len(n.targets) == 1 and unparse(n.targets[0]) == a and unparse(n.value) == v]
        if not climbs and not starts:
            # the anchor comes from a helper: `a = _anchor_of(v)` with `def _anchor_of(n): x = n; while isinstance(x.parent, C): x = x.parent; return x`
            got = self._anchor_helper(lp, a, v, st, cfg)
            if got is not None:
                h_, classes, wnode = got
                if "docutils.nodes.TextElement" not in classes:
                    self.problems.append(("message-placement", f"{h_.qualname}() does not climb out of text elements: for inline raw nodes the warning is inserted inside a title or paragraph, whose text then contains the system message", wnode))
                elif "docutils.nodes.field" not in classes:
                    self.problems.append(("message-placement", f"the climb `{short(wnode.test, 70)}` in {h_.qualname}() stops at a field: for a raw node in a field name (`:author<br>: me`) the message is inserted between the field's name and body - a field has exactly these two children", wnode))
                else:
                    self.oks.append(("message-placement", f"the message goes next to the node {h_.qualname}() returns: outside the text element and the field around the raw node (or next to the node itself)", call))
                return
        if climbs and starts and cfg.dominates(climbs[0], st) and cfg.dominates(starts[0], climbs[0]):
            classes = self._class_set(climbs[0].test.args[1])
            if "docutils.nodes.field" not in classes:
                self.problems.append(("message-placement", f"the climb `{short(climbs[0].test, 70)}` stops at a field: for a raw node in a field name (`:author<br>: me`) the message is inserted between the field's name and body - a field has exactly these two children (Sphinx' metadata collector asserts it, docutils no longer recognises the bibliographic field)", climbs[0]))
            else:
                self.oks.append(("message-placement", f"the message goes next to `{a}`, outside the text element and the field around the raw node (or next to the node itself)", call))
        elif starts and not climbs:
            self.problems.append(("message-placement", f"`{short(call, 60)}` inserts the warning into `{a}.parent`, and `{a}` is the raw node itself: for inline raw nodes that is inside a title or paragraph, whose text then contains the system message", call))
        else:
            raise Unsupported(f"{fi.module.site(call)}: cannot tell which node `{a}` is when the message is inserted")

    def _anchor_helper(self, reg: ast.AST, a: str, v: str, st, cfg):
        """`a = helper(v)` dominating ``st`` where the helper climbs from its argument out of a class set and returns
        the climbed node -> (helper, class set, while node); None when `a` is not assigned that way."""
        if self.corpus is None:
            return None
        fi = self.fi
        g = get_callgraph(self.corpus)
        asg = [n for n in walk_local(reg) if isinstance(n, ast.Assign) and len(n.targets) == 1 and unparse(n.targets[0]) == a and isinstance(n.value, ast.Call)]
        if len(asg) != 1 or not cfg.dominates(cfg.stmt_of(asg[0]), st):
            return None
        c = asg[0].value
        pos = [i for i, x in enumerate(c.args) if isinstance(x, ast.Name) and x.id == v]
        ts = g.resolve_call(c, fi)
        if not pos or len(ts) != 1 or not isinstance(ts[0], FunctionInfo) or ts[0].is_lambda:
            return None
        h = ts[0]
        off = 1 if h.cls is not None and h.params and h.params[0] in ("self", "cls") else 0
        if pos[0] + off >= len(h.params):
            return None
        pv = h.params[pos[0] + off]
        rets = [n for n in h.local_nodes() if isinstance(n, ast.Return)]
        if not rets or any(not isinstance(r.value, ast.Name) for r in rets) or len({r.value.id for r in rets}) != 1:  # type: ignore[union-attr]
            raise Unsupported(f"{h.site()}: {h.qualname}() does not return one climbed node")
        x = rets[0].value.id  # type: ignore[union-attr]
        saved = self.fi
        try:
            self.fi = h
            hcfg = get_cfg(h)
            whiles = [
                w_ for w_ in h.local_nodes()
                if isinstance(w_, ast.While) and isinstance(w_.test, ast.Call) and dotted(w_.test.func) == "isinstance" and len(w_.test.args) == 2
                and unparse(w_.test.args[0]) == f"{x}.parent" and not w_.orelse
                and any(isinstance(b_, ast.Assign) and unparse(b_.targets[0]) == x and unparse(b_.value) == f"{x}.parent" for b_ in w_.body)
            ]
            starts = [n for n in h.local_nodes() if isinstance(n, ast.Assign) and len(n.targets) == 1 and unparse(n.targets[0]) == x and unparse(n.value) == pv] if x != pv else [h.node]
            if len(whiles) != 1 or not starts or not all(hcfg.dominates(whiles[0], r) for r in rets):
                raise Unsupported(f"{h.site()}: {h.qualname}() is not `x = node; while isinstance(x.parent, C): x = x.parent; return x`")
            return h, self._class_set(whiles[0].test.args[1]), whiles[0]
        finally:
            self.fi = saved

    def _field_name_kept(self, reg: ast.AST, v: str, cfg) -> None:
        """Removing the raw node can leave its parent without children; docutils' DocInfo transform reads
        `field[0][0]`, so a field_name must not stay empty (`:<br>: value` as first body element): after the
        removal a child is added to P - the parent captured before the removal - exactly under
        `isinstance(P, field_name)` and `P` being empty (one test or nested tests, no further condition)."""
        fi = self.fi
        rm_stmts = [cfg.stmt_of(c) for c in self.removers]
        first_rm = min(getattr(r_, "lineno", 0) for r_ in rm_stmts)
        found = None
        why = "no statement refills a field_name that the removal left empty"
        for c_ in calls_in(reg, into_lambdas=False):
            f_ = c_.func
            if not (isinstance(f_, ast.Attribute) and f_.attr in ("append", "insert", "extend") and isinstance(f_.value, ast.Name)):
                continue
            px = f_.value
            pname = px.id
            st = cfg.stmt_of(c_)
            gs = [(t, pol) for t, pol in cfg.guards(st) if getattr(reg, "lineno", 0) <= getattr(t, "lineno", 0) <= getattr(reg, "end_lineno", 10**9)]
            inst = [(t, pol) for t, pol in gs if isinstance(t, ast.Call) and dotted(t.func) == "isinstance" and len(t.args) == 2 and "docutils.nodes.field_name" in self._class_set(t.args[1])]
            if not inst:
                continue
            t, pol = inst[0]
            if not pol:
                why = f"`{short(t, 60)}` is negated: field names are excluded from the refill"
                continue
            if unparse(t.args[0]) != pname:
                tested = unparse(t.args[0])
                why = f"the type test looks at `{tested}`, the refill goes to `{pname}`" + (f" (after the removal `{v}.parent` is None, so the test never holds)" if tested == f"{v}.parent" else "")
                continue
            dv = _deref(px, fi)
            cap = [a_ for a_ in walk_local(reg) if isinstance(a_, ast.Assign) and any(isinstance(tg, ast.Name) and tg.id == pname for tg in a_.targets)]
            if not (dv is not None and unparse(dv) == f"{v}.parent" and cap and all(cfg.dominates(cfg.stmt_of(cap[0]), r_) for r_ in rm_stmts)):
                why = f"`{pname}` is not the raw node's parent captured before the removal"
                continue
            empt = [
                (t2, pol2) for t2, pol2 in gs
                if (not pol2 and unparse(t2) in (f"{pname}.children", pname, f"len({pname})", f"len({pname}.children)"))
                or (pol2 and isinstance(t2, ast.Compare) and len(t2.ops) == 1 and isinstance(t2.ops[0], ast.Eq) and unparse(t2.left) in (f"len({pname})", f"len({pname}.children)") and is_const(t2.comparators[0], 0))
            ]
            # conditions that were established before the removal (the filter's own guards) do not narrow the refill
            extra = [x for x in gs if x not in inst and x not in empt and getattr(x[0], "lineno", 0) > first_rm]
            if not empt:
                why = f"the refill of `{pname}` is not conditioned on `{pname}` being empty"
                continue
            if extra:
                why = f"the refill additionally depends on `{short(extra[0][0], 50)}`"
                continue
            if not all(cfg.dominates(r_, st) for r_ in rm_stmts) or getattr(inst[0][0], "lineno", 0) < first_rm:
                why = f"`{short(t, 50)}` / the refill is evaluated before the node is removed (the name still has its child then)"
                continue
            found = c_
            break
        if found is not None:
            self.oks.append(("field-name-kept-nonempty", "a field_name emptied by the removal gets a (blank) text child", found))
        else:
            self.problems.append(("field-name-kept-nonempty", f"{why}: with raw disabled, `:<br>: value` as the first body element leaves a field_name without children, and docutils' DocInfo transform (field[0][0]) raises IndexError, aborting the conversion", self.removers[0]))

    def _delegate(self, lp: ast.For, v: str, cfg) -> bool:
        """`for node in ...: helper(document, node)`: the loop body hands each raw node to a per-node helper.
        The helper's body is judged in place of the loop body (its entry-to-exit paths are the iterations)."""
        if self.corpus is None:
            return False
        fi = self.fi
        g = get_callgraph(self.corpus)
        for c in calls_in(lp, into_lambdas=False):
            pos = [i for i, a_ in enumerate(c.args) if isinstance(a_, ast.Name) and a_.id == v]
            kws = [k_.arg for k_ in c.keywords if isinstance(k_.value, ast.Name) and k_.value.id == v and k_.arg]
            if not pos and not kws:
                continue
            ts = g.resolve_call(c, fi)
            fts = [t for t in ts if isinstance(t, FunctionInfo) and not t.is_lambda]
            if len(fts) != 1 or len(ts) != 1:
                continue
            h = fts[0]
            off = 1 if h.cls is not None and h.params and h.params[0] in ("self", "cls") else 0
            pv = kws[0] if kws else (h.params[pos[0] + off] if pos[0] + off < len(h.params) else None)
            if pv is None:
                continue
            st = cfg.stmt_of(c)
            if cfg.paths_avoiding(("T", lp), lp, lambda n: n is st):
                raise Unsupported(f"{fi.module.site(c)}: `{short(c, 50)}` handles the raw node but is not called on every iteration")
            # which parameter of the helper is the document
            proot = None
            for i, a_ in enumerate(c.args):
                if unparse(_deref(a_, fi)) == self.root and i + off < len(h.params):
                    proot = h.params[i + off]
            for k_ in c.keywords:
                if k_.arg and unparse(_deref(k_.value, fi)) == self.root:
                    proot = k_.arg
            if proot is None and self.root == "self.document" and h.cls is not None and fi.cls is not None and h.cls.fq == fi.cls.fq:
                proot = "self.document"
            saved = (self.fi, self.root)
            try:
                self.fi, self.root = h, (proot or "<document>")
                self.notes.append((f"each raw node is handled by {h.qualname}()", c))
                self._loop_body(lp, get_cfg(h), region=h.node, v_name=pv)
            finally:
                self.fi, self.root = saved
            return True
        return False

    def _loop_body(self, lp: ast.For, cfg, region: ast.AST | None = None, v_name: str | None = None) -> None:
        """Judge what happens to one raw node: in the body of the loop ``lp`` (paths from the loop-body entry back to
        the loop header), or - ``region`` given - in the body of a per-node helper the loop delegates to (paths from the
        helper's entry to its normal exit)."""
        fi = self.fi
        reg: ast.AST = region if region is not None else lp
        start, stop = (("T", lp), lp) if region is None else ("ENTRY", "EXIT")
        if region is None:
            if not isinstance(lp.target, ast.Name):
                raise Unsupported(f"{fi.module.site(lp)}: raw loop target is not a simple name")
            v = lp.target.id
        else:
            v = v_name or ""
        for n in walk_local(reg):
            if isinstance(n, ast.Break) or (region is None and isinstance(n, ast.Return)):
                raise Unsupported(f"{fi.module.site(n)}: break/return inside the raw filter loop")
        muts = []  # (call, kind, replacement expr | None)
        for c in calls_in(reg, into_lambdas=False):
            f = c.func
            if not isinstance(f, ast.Attribute):
                continue
            recv = unparse(_deref(f.value, fi)) if isinstance(f.value, ast.Name) and f.value.id != v else unparse(f.value)
            a0, a1 = arg_or_kw(c, 0, "old"), arg_or_kw(c, 1, "new")
            if f.attr == "replace" and recv == f"{v}.parent" and a0 is not None and a1 is not None and unparse(a0) == v:
                muts.append((c, "replace", a1))
            elif f.attr == "replace_self" and recv == v and arg_or_kw(c, 0, "new") is not None:
                muts.append((c, "replace", arg_or_kw(c, 0, "new")))
            elif f.attr == "remove" and recv in (f"{v}.parent", f"{v}.parent.children") and (arg_or_kw(c, 0, "item") or arg_or_kw(c, 0, "value")) is not None and unparse(arg_or_kw(c, 0, "item") or arg_or_kw(c, 0, "value")) == v:
                muts.append((c, "remove", None))
        if not muts and region is None and self._delegate(lp, v, cfg):
            return
        if not muts:
            raise Unsupported(f"{fi.module.site(reg)}: the raw filter loop neither replaces nor removes `{v}` in a recognised form")
        # `parent.insert(i, W)` / `.append(W)` of a message + removal of the node is a replacement written in two steps
        removal_stmts = {id(cfg.stmt_of(c)) for c, _, _ in muts}  # where the raw node actually leaves its parent
        inserts = []
        for c in calls_in(reg, into_lambdas=False):
            f = c.func
            if isinstance(f, ast.Attribute) and f.attr in ("insert", "append") and c.args:
                wx = c.args[-1] if f.attr == "append" else (c.args[1] if len(c.args) > 1 else None)
                if wx is not None and _levels(wx, fi, self.corpus) is not None and _nullability(wx, fi, self.corpus)[0] != "unknown":
                    inserts.append((c, "insert", wx))
        if inserts and any(kind == "remove" for _, kind, _ in muts):
            ins_stmts = {id(cfg.stmt_of(c)) for c, _, _ in inserts}
            if cfg.paths_avoiding(start, stop, lambda n: id(n) in ins_stmts) and not cfg.paths_avoiding(start, stop, lambda n: id(n) in removal_stmts):
                self.notes.append(("on some iterations the raw node is removed without a message being inserted", inserts[0][0]))
            self.removers = [c for c, kind, _ in muts if kind == "remove"]
            # order: the insertion point is found through the raw node (`anchor` may be the node itself, and
            # `anchor.parent.index(anchor)` needs it attached), so the node must still be in the tree when the message goes in
            for ic, _k, _w in inserts:
                holder_ = ic.func.value  # type: ignore[union-attr]
                if isinstance(holder_, ast.Attribute) and holder_.attr == "parent":
                    ist = cfg.stmt_of(ic)
                    early = [rc for rc in self.removers if cfg.stmt_of(rc) is not ist and cfg.paths_avoiding(cfg.stmt_of(rc), ist, lambda n: n == stop)]
                    if early:
                        self.problems.append(("insert-before-remove", f"`{short(early[0], 40)}` runs before `{short(ic, 50)}`: for a raw node that is not inside a text element the insertion anchor is the node itself, already detached (`parent` is None), so the clean-up raises AttributeError instead of reporting the refusal", early[0]))
                    else:
                        self.oks.append(("insert-before-remove", "the message is inserted while the raw node is still attached; the node is removed afterwards", ic))
            muts = [m for m in muts if m[1] != "remove"] + inserts
        else:
            self.removers = [c for c, kind, _ in muts if kind == "remove"]
        if self.removers:
            self._field_name_kept(reg, v, cfg)
        stmts = removal_stmts
        if cfg.paths_avoiding(start, stop, lambda n: id(n) in stmts):
            # some iteration leaves the node in place.  Harmless only when the node is detached (`v.parent is None`)
            # or the test is a tautological type check; any other skip lets an attached raw node survive.
            all_tests = [n.test for n in walk_local(reg) if isinstance(n, (ast.If, ast.IfExp))]
            done = False
            # skipped when the replacement is None?
            for _c, kind_, new_ in muts:
                if kind_ in ("replace", "insert") and isinstance(new_, ast.Name) and any(any(isinstance(x, ast.Name) and x.id == new_.id for x in ast.walk(t)) for t in all_tests):
                    nb, why_nb = _nullability(_deref(new_, fi), fi, self.corpus)
                    if nb == "maybe":
                        self.problems.append(("replacement-not-none", f"the raw node is only replaced when `{new_.id}` is not None, and it can be None ({why_nb}): in that case the node is neither replaced nor removed and stays in the document", _c))
                        done = True
                        break
            if not done:
                harmless = [t for t in all_tests if _only_parent_test(t, v) or self._is_raw_isinstance(t, v)]
                other = [t for t in all_tests if t not in harmless]
                if all_tests and not other:
                    self.oks.append(("every-node", f"each raw node that is attached to a parent is replaced/removed (`{short(all_tests[0], 40)}` only skips detached nodes)", muts[0][0]))
                elif other:
                    t0 = other[0]
                    derived = self._derived_from(reg, v)
                    names = {x.id for x in ast.walk(t0) if isinstance(x, ast.Name)}
                    about = "the node's own content" if (v in names or names & derived) else "something other than the node"
                    self.problems.append(("every-node", f"the loop skips raw nodes depending on `{short(t0, 70)}` ({about}): every raw node it skips stays in the document although raw content is disabled", t0))
                else:
                    raise Unsupported(f"{fi.module.site(muts[0][0])}: the replacement of `{v}` can be skipped in a way the rule does not understand")
        else:
            self.oks.append(("every-node", f"each raw node is replaced/removed on every iteration ({len(muts)} mutation site(s))", muts[0][0]))
        # removal (or list-splicing) while docutils' lazy findall() generator is walking the parent's child list
        removers = self.removers
        if self.lazy and removers:
            self.problems.append(("lazy-iteration", f"`{short(removers[0], 50)}` shrinks the parent's child list while the lazy findall() generator is iterating over it: the sibling that follows a removed node is never visited (a hard break is two adjacent raw nodes; inline HTML right after a hard break) and stays in the document", removers[0]))
        elif self.lazy:
            self.oks.append(("lazy-iteration", "lazy findall() traversal, but nodes are replaced one-for-one (child lists keep their length)", lp))
        else:
            self.oks.append(("lazy-iteration", "the raw nodes are collected into a list before the tree is modified", lp))
        # where the message goes: a system_message is a body element and must not become a child of a text element
        for call, kind, new in muts:
            if kind in ("replace", "insert"):
                self._placement(call, kind, v, reg, cfg)
        # what replaces it
        any_replace = any(kind in ("replace", "insert") for _, kind, _ in muts)
        for call, kind, new in muts:
            if kind == "remove":
                if any_replace:
                    self.notes.append((f"`{short(call, 50)}` drops some raw nodes without a message of their own (others are replaced by a warning)", call))
                else:
                    self.problems.append(("reported", f"`{short(call, 50)}` removes raw nodes silently: the refusal must be reported as a warning", call))
                continue
            w = _deref(new, fi)
            if isinstance(w, (ast.List, ast.Tuple)):
                raise Unsupported(f"{fi.module.site(call)}: raw node replaced by a list of nodes")
            # Element.replace(old, None) / replace_self(None) silently keep the old node: the replacement must not be None
            st_call = cfg.stmt_of(call)
            guarded = isinstance(new, ast.Name) and any(
                (pol and isinstance(t, ast.Name) and t.id == new.id)
                or (isinstance(t, ast.Compare) and len(t.ops) == 1 and isinstance(t.left, ast.Name) and t.left.id == new.id and isinstance(t.comparators[0], ast.Constant) and t.comparators[0].value is None and ((pol and isinstance(t.ops[0], ast.IsNot)) or (not pol and isinstance(t.ops[0], ast.Is))))
                for t, pol in cfg.guards(st_call)
            )
            nullable, why_null = ("never", "") if guarded else _nullability(w, fi, self.corpus)
            if nullable == "maybe":
                if kind == "insert":
                    self.problems.append(("replacement-not-none", f"the inserted message `{short(w, 60)}` can be None ({why_null}): the refusal is then not reported and None becomes a child of the parent node", w))
                else:
                    self.problems.append(("replacement-not-none", f"the replacement `{short(w, 60)}` can be None ({why_null}); docutils' Element.replace(old, None) does nothing, so the raw node stays in the document and no refusal is reported", w))
                continue
            if nullable == "unknown":
                raise Unsupported(f"{fi.module.site(call)}: cannot tell whether the replacement `{short(w, 50)}` can be None")
            # one message object per replaced node: a message created outside the loop is one node under many parents
            reused = None
            if isinstance(new, ast.Name):
                assigns = {id(cfg.stmt_of(n)) for n in walk_local(reg) if isinstance(n, ast.Assign) and any(isinstance(t, ast.Name) and t.id == new.id for t in n.targets) and not (isinstance(n.value, ast.Constant) and n.value.value is None)}
                if assigns and cfg.paths_avoiding(start, st_call, lambda n: id(n) in assigns):
                    reused = next(n for n in walk_local(reg) if isinstance(n, ast.Assign) and id(cfg.stmt_of(n)) in assigns)
            if reused is not None:
                self.problems.append(("one-message-per-node", f"`{new.id}` is not assigned on every iteration (`{short(reused, 50)}` is conditional): the message object created for an earlier raw node is used again, so one system_message ends up under several parents and N refusals are reported once; docutils' FilterMessages then raises ValueError when report_level > 2", reused))
            elif isinstance(w, ast.AST) and hasattr(w, "lineno") and not (reg.lineno <= w.lineno <= reg.end_lineno) and not isinstance(w, (ast.Name, ast.Constant)):
                self.problems.append(("one-message-per-node", f"the replacement `{short(w, 60)}` is created once, outside the loop, and the same system_message object is put in place of every raw node: N refusals are reported by one warning, and a node that sits under several parents breaks docutils' message filtering (ValueError from FilterMessages when report_level > 2), aborting instead of processing the rest normally", w))
            else:
                self.oks.append(("one-message-per-node", "the replacement is created inside the loop, once per raw node", call))
            levels = _levels(w, fi, self.corpus)
            if levels is None:
                raise Unsupported(f"{fi.module.site(call)}: the replacement `{short(new, 50)}` is not a reporter message the rule understands")
            bad = sorted(lv for lv in levels if lv != "warning")
            if not bad:
                self.oks.append(("reported", f"replacement is {short(w, 60)}" + (" (used only when not None)" if guarded else ""), w))
            else:
                lv = bad[0]
                self.problems.append(("reported", f"the refusal is reported with level `{lv}`, not as a warning" + (" (below the default report level: nothing is shown)" if lv in ("info", "debug", "0", "1") else ""), w))


def _levels(w: ast.expr | None, fi: FunctionInfo, corpus: Corpus | None, depth: int = 0) -> set[str] | None:
    """The severities the message expression can carry ('warning', 'info', 'error', ...), None if not understood.
    None-valued alternatives contribute nothing (nullability is judged separately)."""
    w = _deref(w, fi)
    if w is None or depth > 4:
        return None
    alts = _alternatives(w, fi)
    if alts is not None:
        parts_ = [_levels(a_, fi, corpus, depth + 1) for a_ in alts]
        return None if any(p_ is None for p_ in parts_) else set().union(*parts_)
    if isinstance(w, ast.Constant) and w.value is None:
        return set()
    if isinstance(w, ast.IfExp):
        parts = [_levels(w.body, fi, corpus, depth + 1), _levels(w.orelse, fi, corpus, depth + 1)]
    elif isinstance(w, ast.BoolOp):
        parts = [_levels(v, fi, corpus, depth + 1) for v in w.values]
    else:
        parts = None
    if parts is not None:
        if any(p_ is None for p_ in parts):
            return None
        return set().union(*parts)
    if isinstance(w, ast.Call):
        if isinstance(w.func, ast.Attribute) and unparse(w.func.value).endswith("reporter"):
            lv = w.func.attr
            if lv in ("warning", "info", "debug", "error", "severe", "critical"):
                return {lv}
            if lv == "system_message" and w.args and isinstance(w.args[0], ast.Constant) and isinstance(w.args[0].value, int):
                return {"warning"} if w.args[0].value == 2 else {str(w.args[0].value)}
            return None
        if corpus is not None:
            if _is_create_warning(w, fi, corpus):
                return {"warning"}
            g = get_callgraph(corpus)
            ts = g.resolve_call(w, fi)
            fts = [t for t in ts if isinstance(t, FunctionInfo) and not t.is_lambda]
            if fts and len(fts) == len(ts):
                out: set[str] = set()
                for t in fts:
                    rets = [n for n in t.local_nodes() if isinstance(n, ast.Return) and n.value is not None]
                    if not rets:
                        return None
                    for r in rets:
                        lv_ = _levels(r.value, t, corpus, depth + 1)
                        if lv_ is None:
                            return None
                        out |= lv_
                return out
    return None


def _filters_in(fi: FunctionInfo) -> list[ast.If]:
    if fi.is_lambda:
        return []
    return [n for n in fi.local_nodes() if isinstance(n, ast.If) and _mentions_setting(n.test, "raw_enabled", fi)]


def _unconditional_filter(fi: FunctionInfo, after=None) -> ast.If | None:
    """A raw filter in ``fi`` that lies on every path from ``after`` (default ENTRY) to the normal exit."""
    cfg = get_cfg(fi)
    start = after if after is not None else "ENTRY"
    for ifn in _filters_in(fi):
        outer = ifn
        # `if hasattr(X.settings, "raw_enabled"): if not X.settings.raw_enabled: ...` is the getattr-with-default form, split
        while True:
            p = parent(outer)
            if isinstance(p, ast.If) and outer in p.body and not p.orelse and isinstance(p.test, ast.Call) and dotted(p.test.func) == "hasattr" and len(p.test.args) == 2 and is_const(p.test.args[1], "raw_enabled"):
                outer = p
            else:
                break
        if outer is not start and ifn is not start and cfg.postdominates(outer, start):
            return ifn
    return None


def _filter_after(corpus: Corpus, fi: FunctionInfo, s, depth: int = 0):
    """A raw filter on every path from statement ``s`` of ``fi`` to the normal exit: in ``fi`` itself, in a
    helper that a later statement always calls, or - when ``fi`` is itself a helper - after every call of
    ``fi`` in its callers.  -> (function holding the filter, if-node, how, host function, host statement) | None"""
    g = get_callgraph(corpus)
    cfg = get_cfg(fi)
    if s not in cfg.pdom():
        raise Unsupported(f"{fi.module.site(s)}: the render call cannot reach the normal exit")
    ifn = _unconditional_filter(fi, s)
    if ifn is not None:
        return fi, ifn, f"in {fi.qualname}, after the render call", fi, ifn
    for st in cfg.nodes:
        if not isinstance(st, ast.stmt) or st is s or isinstance(st, (ast.If, ast.For, ast.While, ast.Try, ast.With, ast.FunctionDef)):
            continue
        if not cfg.postdominates(st, s):
            continue
        for c in calls_in(st, into_lambdas=False):
            for t in g.flat_targets(g.resolve_call(c, fi)):
                if t.is_lambda or t.fq == fi.fq:
                    continue
                inner = _unconditional_filter(t)
                if inner is not None:
                    return t, inner, f"in {t.qualname}, called by {fi.qualname} after the render call", fi, s
    if depth < 2:
        callers = [(cfi, c) for cfi, c in g.callers().get(fi.fq, []) if cfi.fq != fi.fq]
        if callers and not any(cfi.is_lambda for cfi, _ in callers):
            found = []
            for cfi, c in callers:
                r = _filter_after(corpus, cfi, get_cfg(cfi).stmt_of(c), depth + 1)
                if r is None:
                    return None
                found.append(r)
            return found[0]
    return None


def locate_filter(corpus: Corpus, fe: FrontEnd):
    """Where the filter that covers this front end lives: (function, if-node, how, host, host stmt) or
    (None, reason, partial-if, host, host stmt)."""
    g = get_callgraph(corpus)
    fi = fe.fi
    cfg = get_cfg(fi)
    s = cfg.stmt_of(fe.render_call)
    r = _filter_after(corpus, fi, s)
    if r is not None:
        return r
    # inside the renderer: after the tokens were rendered, in render() or a helper it always calls
    rm = corpus.lookup_method(fe.renderer, "render")
    if rm is not None:
        rcfg = get_cfg(rm)
        rts = [c for c in _own_calls(rm) if isinstance(c.func, ast.Attribute) and c.func.attr == "_render_tokens"]
        if len(rts) == 1:
            rs = rcfg.stmt_of(rts[0])
            inner = _unconditional_filter(rm, rs)
            if inner is not None:
                return rm, inner, f"in {rm.qualname}, after _render_tokens", fi, s
            for st in rcfg.nodes:
                if isinstance(st, ast.stmt) and st is not rs and not isinstance(st, (ast.If, ast.For, ast.While, ast.Try, ast.With)) and rcfg.postdominates(st, rs):
                    for c in calls_in(st, into_lambdas=False):
                        for t in g.flat_targets(g.resolve_call(c, rm)):
                            if t.is_lambda or t.fq == rm.fq or t.name.startswith("render_"):
                                continue
                            inner = _unconditional_filter(t)
                            if inner is not None:
                                return t, inner, f"in {t.qualname}, called by {rm.qualname} after _render_tokens", fi, s
    partial = _filters_in(fi)
    if partial:
        return None, "a raw_enabled test exists in the entry but some path from the render call to the normal exit does not pass it", partial[0], fi, s
    return None, "no raw_enabled filter follows the render call (neither in the function, in a helper it always calls afterwards, after the call in its callers, nor at the end of the renderer's render())", None, fi, s


@rule("C20.R1")
def r1_filter_postdominates(corpus: Corpus, rep: Report, tier: str):
    rep.rule("C20.R1", "in every front end the raw filter lies on every path from the render call to the normal exit, is taken whenever raw_enabled is false, covers all nodes.raw of the whole document and replaces each by its own warning")
    fes, others = front_ends(corpus)
    if not fes:
        raise AnchorMissing("no function builds a markdown-it parser with a docutils renderer (create_md_parser(config, DocutilsRenderer))")
    for fi, call, r in others:
        rep.listed("C20.R1", f"{fi.fq}|create_md_parser(..., {r})", fi.module.site(call), "renderer does not build a docutils document: no docutils settings apply")
    analysed: dict[tuple[str, int], Filter] = {}
    for fe in fes:
        fi = fe.fi
        rep.saw_function(fi.fq)
        rep.saw_call(fi.module.site(fe.render_call))
        k = f"{fi.fq}|raw filter after {short(fe.render_call, 40)}"
        where, ifn, how, _host, _hst = locate_filter(corpus, fe)
        if where is None:
            reason, partial = ifn, how
            site = fi.module.site(partial if partial is not None else fe.render_call)
            rep.violation(
                "C20.R1",
                k,
                site,
                f"{fi.qualname} renders the source with {fe.renderer.name} and returns without filtering raw nodes: {reason}. "
                "With raw_enabled false, HTML blocks/inline HTML, hard line breaks and strikethrough stay in the document as raw nodes",
            )
            continue
        rep.ok("C20.R1", k, where.module.site(ifn), how)
        ident = (where.fq, ifn.lineno)
        if ident in analysed:
            continue
        flt = Filter(where, ifn, corpus)
        analysed[ident] = flt
        rep.saw_function(where.fq)
        # the document filtered must be the one rendered into
        _check_same_document(rep, fe, flt)
        site_of = lambda n_: getattr(n_, "_mod", where.module).site(n_)  # noqa: E731
        for aspect, msg, node in flt.oks:
            rep.ok("C20.R1", f"{where.fq}|raw filter|{aspect}", site_of(node), msg)
        for aspect, msg, node in flt.problems:
            rep.violation("C20.R1", f"{where.fq}|raw filter|{aspect}", site_of(node), msg)
        for msg, node in flt.notes:
            rep.listed("C20.R1", f"{where.fq}|raw filter|note|{short(node, 40)}", site_of(node), msg)
    corpus._cache["c20-filters"] = list(analysed.values())
    rep.expect_min("C20.R1", 2, "front-end entries (docutils and Sphinx parsers)")


def _check_same_document(rep: Report, fe: FrontEnd, flt: Filter) -> None:
    """The filtered document is the one handed to the renderer (parser.options['document'] = <doc>)."""
    fi = fe.fi
    var = unparse(fe.render_call.func.value)  # type: ignore[union-attr]
    given = None  # (node, value expr)
    for n in fi.local_nodes():
        if isinstance(n, ast.Assign) and len(n.targets) == 1:
            t = n.targets[0]
            if isinstance(t, ast.Subscript) and unparse(t.value) == f"{var}.options" and is_const(t.slice, "document"):
                given = (n, n.value)
        elif isinstance(n, ast.Call) and isinstance(n.func, ast.Attribute) and n.func.attr == "update" and unparse(n.func.value) == f"{var}.options":
            v = kwarg(n, "document")
            if v is None and n.args and isinstance(n.args[0], ast.Dict):
                for kk, vv in zip(n.args[0].keys, n.args[0].values):
                    if is_const(kk, "document"):
                        v = vv
            if v is not None:
                given = (n, v)
    k = f"{fi.fq}|raw filter|same document as rendered"
    if given is None or flt.fi.fq != fi.fq:
        # the store or the filter lives in a helper: the pairing is not established here (evidence only)
        rep.listed("C20.R1", k, fi.site(), "document handed to the renderer and document filtered live in different functions: pairing not checked")
        return
    node, value = given
    if unparse(_deref(value, fi)) == flt.root:
        rep.ok("C20.R1", k, fi.module.site(node), f"{var}.options['document'] is {flt.root}")
    else:
        rep.violation("C20.R1", k, fi.module.site(node), f"the renderer writes into `{short(value, 40)}` but the raw filter walks `{flt.root}`")


# ---------------------------------------------------------------------------
# R2 no raw node is constructed after the filter


def _transform_entries(corpus: Corpus) -> tuple[list[tuple[FunctionInfo, str]], list[tuple[FunctionInfo, str]]]:
    """apply()/run() of every transform class the package registers (get_transforms(), app.add_*transform());
    transform classes the package defines but never registers are returned separately (evidence only)."""
    out: dict[str, tuple[FunctionInfo, str]] = {}
    unregistered: dict[str, tuple[FunctionInfo, str]] = {}

    def add_class(ci, why, into):
        for name in ("apply", "run"):
            m = ci.methods.get(name)
            if m is not None:
                into.setdefault(m.fq, (m, why))

    for fi in corpus.all_functions():
        if fi.is_lambda:
            continue
        if fi.name == "get_transforms":
            seqs = [n for n in fi.local_nodes() if isinstance(n, (ast.List, ast.Tuple))]
            for n in fi.local_nodes():
                if isinstance(n, ast.Name) and n.id in fi.module.const_nodes and isinstance(fi.module.const_nodes[n.id], (ast.List, ast.Tuple)):
                    seqs.append(fi.module.const_nodes[n.id])
            for n in seqs:
                if True:
                    for e in n.elts:
                        ci = corpus.find_class(fi.module.resolve(dotted(e) or ""))
                        if ci is not None:
                            add_class(ci, f"listed in {fi.qualname}", out)
        for c in _own_calls(fi):
            if isinstance(c.func, ast.Attribute) and c.func.attr in ("add_transform", "add_post_transform") and c.args:
                ci = corpus.find_class(fi.module.resolve(dotted(c.args[0]) or ""))
                if ci is not None:
                    add_class(ci, f"registered by {fi.qualname}", out)
        # Sphinx event handlers run outside the parse: whatever they put into a doctree is never filtered
        for c in _own_calls(fi):
            if isinstance(c.func, ast.Attribute) and c.func.attr == "connect" and len(c.args) >= 2 and isinstance(c.args[0], ast.Constant):
                h = corpus.find_function(fi.module.resolve(dotted(c.args[1]) or ""))
                if h is not None:
                    out.setdefault(h.fq, (h, f"handler of the Sphinx event {c.args[0].value!r} connected by {fi.qualname}"))
    for ci in corpus.all_classes():
        ext = corpus.external_bases(ci)
        if any(b.rsplit(".", 1)[-1].endswith(("Transform", "ReferencesResolver")) for b in ext):
            tmp: dict[str, tuple[FunctionInfo, str]] = {}
            add_class(ci, "transform class (base " + ", ".join(b.rsplit(".", 1)[-1] for b in ext) + ") that the package never registers", tmp)
            for fq, v in tmp.items():
                if fq not in out:
                    unregistered[fq] = v
    return list(out.values()), list(unregistered.values())


def _raw_constructions(corpus: Corpus) -> list[tuple[FunctionInfo, ast.Call]]:
    out = []
    for fi in corpus.all_functions():
        for c in _own_calls(fi):
            if _is_raw_ctor(c, fi, corpus):
                out.append((fi, c))
    # module / class level (not inside any function)
    return out


REGISTRY_OF_NOTE = {
    "note_footnote": "footnotes",
    "note_autofootnote": "autofootnotes",
    "note_symbol_footnote": "symbol_footnotes",
    "note_citation": "citations",
}


def _registered_nodes_swept(corpus: Corpus, rep: Report, late: list[tuple[FunctionInfo, str]], render_reach: dict[str, list[str]]) -> None:
    """A node the renderer registers with the document (note_footnote -> document.footnotes, ...) can be rendered into
    a temporary parent that a directive then drops; if a later transform attaches the registered nodes to the document,
    their raw children reach the output unless the filter also walks that registry (or the transform skips detached nodes)."""
    by_fq = {f.fq: f for f in corpus.all_functions()}
    filled: dict[str, str] = {}
    for fq in render_reach:
        f = by_fq.get(fq)
        if f is None:
            continue
        for c in _own_calls(f):
            if isinstance(c.func, ast.Attribute) and c.func.attr in REGISTRY_OF_NOTE and unparse(c.func.value).endswith("document"):
                filled.setdefault(REGISTRY_OF_NOTE[c.func.attr], f"{f.qualname} ({f.module.site(c)})")
    reattached: dict[str, tuple[FunctionInfo, ast.AST]] = {}
    for ent, _why in late:
        for fq in _reach(corpus, [ent]):
            f = by_fq.get(fq)
            if f is None or f.is_lambda:
                continue
            attaches = any(
                (isinstance(n, ast.AugAssign) and isinstance(n.op, ast.Add) and unparse(n.target).endswith("document"))
                or (isinstance(n, ast.Call) and isinstance(n.func, ast.Attribute) and n.func.attr in ("append", "insert", "extend") and unparse(n.func.value).endswith("document"))
                for n in f.local_nodes()
            )
            if not attaches:
                continue
            skips_detached = any(isinstance(n, ast.While) and ".parent" in unparse(n.test) for n in f.local_nodes())
            for n in f.local_nodes():
                if isinstance(n, ast.Attribute) and n.attr in REGISTRY_OF_NOTE.values() and unparse(n.value).endswith("document") and isinstance(n.ctx, ast.Load):
                    if not skips_detached:
                        reattached.setdefault(n.attr, (f, n))
    required = sorted(set(filled) & set(reattached))
    filters = corpus._cache.get("c20-filters")
    if filters is None:
        return  # R1 could not analyse the filters (reported there)
    seen_keys: set[str] = set()
    for reg in required:
        f, n = reattached[reg]
        for flt in filters:
            k = f"{flt.fi.fq}|raw filter|also sweeps document.{reg}"
            if k in seen_keys:
                continue  # two call sites of one sweeping helper
            seen_keys.add(k)
            site = flt.fi.module.site(flt.loop or flt.ifnode)
            if reg in flt.swept_registries:
                rep.ok("C20.R2", k, site, f"registered by {filled[reg]}, re-attached by {f.qualname}")
            else:
                rep.violation(
                    "C20.R2",
                    k,
                    site,
                    f"nodes registered in document.{reg} (by {filled[reg]}) are attached to the document by {f.qualname} after the raw filter has run, "
                    f"but the filter only walks the tree: a footnote definition inside directive content that the directive discards (e.g. a {{table}} body that is not a table) "
                    "is detached when the filter runs and comes back, raw children included, when footnotes are collected",
                    [f"{f.fq} reads document.{reg} ({f.module.site(n)})"],
                )
    for reg in sorted(set(reattached) - set(filled)):
        f, n = reattached[reg]
        rep.listed("C20.R2", f"document.{reg}|re-attached by {f.qualname}", f.module.site(n), "the renderer never registers nodes there (no note_* call in the render phase)")


@rule("C20.R2")
def r2_no_late_raw(corpus: Corpus, rep: Report, tier: str):
    rep.rule("C20.R2", "nothing reachable after the raw filter (transforms, post-transforms, calls after the filter) constructs nodes.raw; every construction is in a render-phase function or unreachable")
    g = get_callgraph(corpus)
    fes, _ = front_ends(corpus)
    ctors = _raw_constructions(corpus)
    by_func: dict[str, list[ast.Call]] = {}
    for fi, c in ctors:
        by_func.setdefault(fi.fq, []).append(c)
    # (a) late entries
    late, unregistered = _transform_entries(corpus)
    for ent, why in unregistered:
        rep.listed("C20.R2", f"{ent.fq}|transform entry", ent.site(), why)
    if len(late) < 4:
        rep.error("C20.R2", f"expected the footnote/anchor transforms, found {len(late)} transform entry point(s)")
    tail_stmts: list[tuple[FunctionInfo, ast.stmt]] = []
    for fe in fes:
        where, ifn, _how, host, hst = locate_filter(corpus, fe)
        cfg = get_cfg(host)
        s0 = cfg.stmt_of(fe.render_call) if host.fq == fe.fi.fq else None
        for st in cfg.reachable_from(hst):
            if isinstance(st, ast.stmt) and st is not hst and st is not s0:
                tail_stmts.append((host, st))
    for fi, st in tail_stmts:
        own = [st] if not isinstance(st, (ast.If, ast.For, ast.While, ast.Try, ast.With)) else _headers(st)
        for part in own:
            for c in calls_in(part, into_lambdas=False):
                if _is_raw_ctor(c, fi, corpus):
                    rep.violation("C20.R2", f"{fi.fq}|constructs nodes.raw after the filter|{short(c, 60)}", fi.module.site(c), f"{fi.qualname} builds `{short(c, 60)}` after the raw filter has run: the node reaches the writer even with raw disabled")
                for t in g.flat_targets(g.resolve_call(c, fi)):
                    late.append((t, f"called by {fi.qualname} after the filter"))
    seen_entries = set()
    for ent, why in late:
        if ent.fq in seen_entries:
            continue
        seen_entries.add(ent.fq)
        reach = _reach(corpus, [ent])
        rep.saw_function(ent.fq)
        bad = [fq for fq in reach if fq in by_func]
        if not bad:
            rep.ok("C20.R2", f"{ent.fq}|no nodes.raw constructed downstream", ent.site(), f"{why}; {len(reach)} reachable function(s)")
        for fq in bad:
            f = corpus.func(fq.replace("myst_parser.", "", 1))
            for c in by_func[fq]:
                rep.violation(
                    "C20.R2",
                    f"{ent.fq}|reaches {fq}|{short(c, 60)}",
                    f.module.site(c),
                    f"`{short(c, 60)}` in {f.qualname} is reachable from {ent.qualname} ({why}), which runs after the raw filter: the node is never filtered",
                    reach[fq],
                )
    # (b) every construction is in the render phase (before the filter) or unreachable
    render_reach: dict[str, list[str]] = {}
    for fe in fes:
        rm = corpus.lookup_method(fe.renderer, "render")
        if rm is None:
            raise AnchorMissing(f"{fe.renderer.fq}.render")
        for fq, chain in _reach(corpus, [rm]).items():
            render_reach.setdefault(fq, chain)
    n_render = 0
    for fi, c in ctors:
        k = f"{fi.fq}|{short(c, 70)}"
        if fi.fq in render_reach:
            n_render += 1
            rep.ok("C20.R2", k, fi.module.site(c), "render-phase construction: built before the filter runs")
        else:
            owner_reach = _reach(corpus, [e for e, _ in late])
            if fi.fq in owner_reach:
                continue  # already reported above
            rep.listed("C20.R2", k, fi.module.site(c), "not reachable from any front end, transform or directive")
    # (c) nodes that sit in a document registry and are attached to the tree only later must be swept as well
    _registered_nodes_swept(corpus, rep, late, render_reach)
    if n_render < 3:
        rep.error("C20.R2", f"expected the render-phase constructions of nodes.raw (hard break, strikethrough, HTML), found {n_render}")
    rep.expect_min("C20.R2", 8, "late entry points (>= 4 transforms) plus render-phase constructions (>= 4)")


def _headers(st: ast.stmt) -> list[ast.AST]:
    if isinstance(st, (ast.If, ast.While)):
        return [st.test]
    if isinstance(st, ast.For):
        return [st.iter]
    if isinstance(st, ast.With):
        return [i.context_expr for i in st.items]
    return []


# ---------------------------------------------------------------------------
# R3 file reads are dominated by the file_insertion_enabled test

READ_FUNCS = {
    "builtins.open": "open()",
    "open": "open()",
    "io.open": "io.open()",
    "codecs.open": "codecs.open()",
    "urllib.request.urlopen": "urlopen()",
    "docutils.io.FileInput": "docutils FileInput",
    "docutils.utils.relative_path": None,  # not a read
}
READ_METHODS = {"read_text", "read_bytes", "open", "read", "readlines"}
# calls that touch paths without reading file content (DESIGN C20.R3), listed in evidence
NON_READING = {"relfn2path", "note_included", "note_dependency", "joinpath", "absolute", "relpath", "normpath"}

# readers outside the include mock that directives can reach: one reason each, shape re-verified
TABLED_READERS = {
    "myst_parser.inventory:fetch_inventory": "loads an inventory named in the *global* configuration (myst_inventories); the path never comes from the document; reached from `inv:` links, not from a directive",
    "myst_parser.inventory:InventoryFileReader.read_buffer": "reads from the stream fetch_inventory opened",
}


def _read_calls(corpus: Corpus) -> list[tuple[FunctionInfo, ast.Call, str]]:
    def compute():
        g = get_callgraph(corpus)
        out = []
        for fi in corpus.all_functions():
            for c in _own_calls(fi):
                f = c.func
                d = dotted(f)
                full = fi.module.resolve(d) if d else ""
                what = None
                if isinstance(f, ast.Name):
                    shadow = any(f.id in x.params for x in _chain(fi))
                    if not shadow and (READ_FUNCS.get(full) or (full == f.id and f.id == "open")):
                        what = READ_FUNCS.get(full) or "open()"
                elif isinstance(f, ast.Attribute):
                    if READ_FUNCS.get(full):
                        what = READ_FUNCS[full]
                    elif f.attr in READ_METHODS:
                        ts = g.resolve_call(c, fi)
                        if not any(isinstance(t, (FunctionInfo, Special)) for t in ts):
                            # `.read()`/.open() on a non-package receiver; `re`-like module functions excluded
                            if not (d and d.split(".")[0] in fi.module.imports and f.attr not in ("open",)):
                                what = f".{f.attr}()"
                if what:
                    out.append((fi, c, what))
        return out

    return corpus.cache("c20-read-calls", compute)


def _chain(fi: FunctionInfo):
    while fi is not None:
        yield fi
        fi = fi.parent_func


def _all_callers_guarded(corpus: Corpus, f: FunctionInfo, depth: int = 2) -> bool:
    """Every call site of ``f`` in the package executes only when file insertion is known to be enabled."""
    g = get_callgraph(corpus)
    callers = g.callers().get(f.fq, [])
    if not callers:
        return False
    for cfi, call in callers:
        if cfi.is_lambda:
            return False
        _check_guard_forms(cfi)
        st = get_cfg(cfi).stmt_of(call)
        if _insertion_guard_facts(corpus, cfi, st):
            continue
        if depth > 0 and _all_callers_guarded(corpus, cfi, depth - 1):
            continue
        return False
    return True


def _refusal_branch(fi: FunctionInfo, ifn: ast.If):
    """(setting read, statements executed when file insertion is disabled, edge taken when it is enabled)
    for `if not <switch>: REFUSE`, `if <switch>: ... else: REFUSE` and `if <switch>: ...return` + REFUSE after
    the if; None when the test is not a single truth test of the switch."""
    atoms = _facts(ifn.test, True)
    if len(atoms) != 1 or _setting_root(atoms[0][0], "file_insertion_enabled", fi) is None:
        return None
    e, pol = atoms[0]
    if not pol:
        return e, ifn.body, ("F", ifn)
    if ifn.orelse:
        return e, ifn.orelse, ("T", ifn)
    p = parent(ifn)
    for fld in ("body", "orelse", "finalbody"):
        blk = getattr(p, fld, None)
        if isinstance(blk, list) and ifn in blk:
            rest = blk[blk.index(ifn) + 1 :]
            if rest and ifn.body and isinstance(ifn.body[-1], (ast.Return, ast.Raise)):
                return e, rest, ("T", ifn)
    return None


def _refusal_if(fi: FunctionInfo, ifn: ast.If):
    """The edge on which file insertion is known to be enabled, when ``ifn`` refuses by raising otherwise."""
    rb = _refusal_branch(fi, ifn)
    if rb is not None and rb[1] and isinstance(rb[1][-1], ast.Raise):
        return rb[2]
    return None


def _check_guard_forms(fi: FunctionInfo) -> None:
    """Every test that involves file_insertion_enabled must be built from direct reads of the setting
    (`not X`, and/or of atoms); a comparison or wrapped read is outside the understood subset."""
    for n in fi.local_nodes():
        if isinstance(n, (ast.If, ast.While, ast.IfExp, ast.Assert)) and _mentions_setting(n.test, "file_insertion_enabled", fi):
            for atom in _leaves(n.test):
                atom = _norm_atom(atom, True, identity=True)[0]
                if _mentions_setting(atom, "file_insertion_enabled", fi) and _setting_root(atom, "file_insertion_enabled", fi) is None:
                    raise Unsupported(f"{fi.module.site(n)}: file_insertion_enabled test `{short(n.test, 60)}` is not a plain truth test of the setting")


def _insertion_guard_facts(corpus: Corpus, fi: FunctionInfo, st) -> list[str]:
    """Reasons why file insertion is known to be enabled whenever ``st`` executes: a dominating truth
    fact on the setting, or a dominating call of a helper that always raises when it is disabled."""
    cfg = get_cfg(fi)
    out = [short(t, 60) for t, pol in _guard_facts(cfg, st) if pol and _setting_root(t, "file_insertion_enabled", fi) is not None]
    if out:
        return out
    g = get_callgraph(corpus)
    for d in cfg.dom().get(st, set()):
        if not isinstance(d, ast.stmt) or d is st or isinstance(d, (ast.If, ast.For, ast.While, ast.Try, ast.With, ast.FunctionDef, ast.ClassDef)):
            continue
        for c in calls_in(d, into_lambdas=False):
            for t in g.flat_targets(g.resolve_call(c, fi)):
                if t.is_lambda or t.fq == fi.fq:
                    continue
                _check_guard_forms(t)
                tcfg = get_cfg(t)
                for ifn in t.local_nodes():
                    if isinstance(ifn, ast.If) and _refusal_if(t, ifn) is not None and _refusal_if(t, ifn) in tcfg.pdom().get("ENTRY", set()):
                        out.append(f"{t.qualname}() raises unless file insertion is enabled")
    return out


def _directive_entries(corpus: Corpus, rd: FunctionInfo) -> list[tuple[FunctionInfo, str]]:
    """run_directive plus the run() of every package class that stands in for a directive: classes the
    package registers (add_directive / add_role) and classes with a run() method instantiated in code
    reachable from run_directive (directive mocks) - independent of the frozen call-graph edge."""
    g = get_callgraph(corpus)
    by_fq = {f.fq: f for f in corpus.all_functions()}
    entries: dict[str, tuple[FunctionInfo, str]] = {rd.fq: (rd, "run_directive")}
    for fi in corpus.all_functions():
        if fi.is_lambda:
            continue
        for c in _own_calls(fi):
            if isinstance(c.func, ast.Attribute) and c.func.attr in ("add_directive", "add_role") and len(c.args) >= 2:
                a = c.args[1].func if isinstance(c.args[1], ast.Call) else c.args[1]
                ci = corpus.find_class(fi.module.resolve(dotted(a) or ""))
                m = corpus.lookup_method(ci, "run") if ci is not None else None
                if m is not None:
                    entries.setdefault(m.fq, (m, f"registered by {fi.qualname} ({c.func.attr})"))
    for _ in range(5):
        reach = _reach(corpus, [e for e, _ in entries.values()], stop=lambda f: f.name == "nested_render_text")
        grew = False
        for fq in list(reach):
            f = by_fq.get(fq)
            if f is None:
                continue
            for c in _own_calls(f):
                d = dotted(c.func)
                ci = corpus.find_class(f.module.resolve(d)) if d else None
                m = ci.methods.get("run") if ci is not None else None
                if m is not None and m.fq not in entries:
                    entries[m.fq] = (m, f"class {ci.name} has a run() method and is instantiated in {f.qualname}")
                    grew = True
        if not grew:
            break
    return list(entries.values())


def _judge_refusal(rep: Report, fi: FunctionInfo, ifn: ast.If) -> bool:
    """Judge one `if not <file_insertion_enabled>:` refusal; True when it is a warning-level refusal."""
    ident = _identity_tests(ifn.test, "file_insertion_enabled", fi)
    if ident:
        rep.violation("C20.R3", f"{fi.fq}|refusal when file insertion is disabled", fi.module.site(ident[0]), f"`{short(ident[0], 60)}` is an identity test: file_insertion_enabled = 0 (a legal 'off' value; docutils' own defaults for the switches are the ints 1/0) is not `False`, so the directive goes on to read the file")
        return False
    rb = _refusal_branch(fi, ifn)
    if rb is None:
        return False  # a weaker/other test establishes nothing: the reads below are then judged unguarded
    root = unparse(_setting_root(rb[0], "file_insertion_enabled", fi))
    k = f"{fi.fq}|refusal when file insertion is disabled"
    last = rb[1][-1] if rb[1] else None
    if isinstance(last, ast.Return):
        msgs = [c for c in calls_in(last, into_lambdas=False) if isinstance(c.func, ast.Attribute) and unparse(c.func.value).endswith("reporter")]
        if len(msgs) == 1 and msgs[0].func.attr == "warning":  # type: ignore[union-attr]
            rep.ok("C20.R3", k, fi.module.site(last), f"returns {short(msgs[0], 60)}")
            return True
        raise Unsupported(f"{fi.module.site(last)}: refusal returns `{short(last, 50)}`: not a single reporter.warning message")
    if not isinstance(last, ast.Raise) or last.exc is None:
        rep.violation("C20.R3", k, fi.module.site(ifn), "the file_insertion_enabled test does not leave the directive (no raise/return): execution continues to the file read")
        return False
    exc = last.exc
    cls = fi.module.resolve(dotted(exc.func) or "") if isinstance(exc, ast.Call) else ""
    if not cls.endswith("DirectiveError"):
        if isinstance(exc, ast.Call) and isinstance(exc.func, ast.Attribute) and exc.func.attr == "warning" and unparse(exc.func.value) == "self":
            rep.ok("C20.R3", k, fi.module.site(last), f"raise {short(exc, 60)} (docutils Directive.warning)")
            return True
        raise Unsupported(f"{fi.module.site(last)}: refusal raises `{short(exc, 50)}`, not DirectiveError")
    lvl = _deref(arg_or_kw(exc, 0, "level"), fi)
    if isinstance(lvl, (ast.Name, ast.Attribute)):
        try:
            d_ = dotted(lvl) or ""
            val = fi.module.const(d_) if d_ in fi.module.const_nodes else None
            if val is None and isinstance(lvl, ast.Attribute) and lvl.attr in ("WARNING_LEVEL", "WARNING") :
                val = 2
            if isinstance(val, int):
                lvl = ast.Constant(value=val)
        except (Unsupported, AnchorMissing):
            pass
    if not (isinstance(lvl, ast.Constant) and isinstance(lvl.value, int)):
        raise Unsupported(f"{fi.module.site(last)}: DirectiveError level `{short(lvl, 30) if lvl is not None else '?'}` is not an integer literal")
    if root not in ("self.document", "self.renderer.document", "self.state.document"):
        raise Unsupported(f"{fi.module.site(ifn)}: file_insertion_enabled is read from `{root}`")
    if lvl.value == 2:
        rep.ok("C20.R3", k, fi.module.site(last), f"raise DirectiveError(2 = WARNING, ...) on `not {root}.settings.file_insertion_enabled`")
        return True
    names = {0: "DEBUG", 1: "INFO (below the default report level: nothing is shown)", 3: "ERROR", 4: "SEVERE (at the default halt level: the whole parse aborts)"}
    rep.violation("C20.R3", k, fi.module.site(last), f"the refusal is raised at level {lvl.value} = {names.get(lvl.value, '?')}; the property requires a warning (2) and normal processing of the rest")
    return False


@rule("C20.R3")
def r3_file_read_dominance(corpus: Corpus, rep: Report, tier: str):
    rep.rule("C20.R3", "in the include mock the file_insertion_enabled test (refusing with a warning-level DirectiveError) dominates every call that can read a file; no other file-system read is reachable from run_directive without re-entering the renderer")
    g = get_callgraph(corpus)
    run = corpus.func("mocking:MockIncludeDirective.run")
    rd = corpus.func("mdit_to_docutils.base:DocutilsRenderer.run_directive")
    rep.saw_function(run.fq)
    reads = _read_calls(corpus)
    reader_funcs = {fi.fq for fi, _, _ in reads}
    cfg = get_cfg(run)
    _check_guard_forms(run)
    # (a) the refusal itself: in run() or in a helper run() calls directly
    holders = [run]
    for c in _own_calls(run):
        for t in g.resolve_call(c, run):
            if isinstance(t, FunctionInfo) and not t.is_lambda and t.fq != run.fq and t not in holders:
                if any(isinstance(n, ast.If) and _mentions_setting(n.test, "file_insertion_enabled", t) for n in t.local_nodes()):
                    _check_guard_forms(t)
                    holders.append(t)
    guards = []
    refusal_ok = False
    for h in holders:
        for ifn in h.local_nodes():
            if isinstance(ifn, ast.If) and _mentions_setting(ifn.test, "file_insertion_enabled", h):
                guards.append(ifn)
                if _judge_refusal(rep, h, ifn):
                    refusal_ok = True
    # (b) every statement of run() that can read a file is guarded
    n_events = 0
    direct = {id(c) for fi, c, _ in reads if fi.fq == run.fq}
    reach_cache: dict[str, bool] = {}

    def reaches_reader(t: FunctionInfo) -> str | None:
        if t.fq not in reach_cache:
            r = _reach(corpus, [t])
            hit = [fq for fq in r if fq in reader_funcs and fq != run.fq] or [fq for fq in r if fq in reader_funcs]
            reach_cache[t.fq] = hit[0] if hit else None  # type: ignore[assignment]
        return reach_cache[t.fq]  # type: ignore[return-value]

    for c in _own_calls(run):
        why = None
        if id(c) in direct:
            why = "reads the file system"
        else:
            for t in g.flat_targets(g.resolve_call(c, run)):
                if t.fq == run.fq:
                    continue
                hit = reaches_reader(t)
                if hit:
                    why = f"can reach the reader {hit.split(':')[1]}"
                    break
        if why is None:
            if isinstance(c.func, ast.Attribute) and c.func.attr in NON_READING:
                rep.listed("C20.R3", f"{run.fq}|{short(c, 60)}", run.module.site(c), "path bookkeeping, does not read file content")
            continue
        n_events += 1
        st = cfg.stmt_of(c)
        k = f"{run.fq}|{short(c.func, 50)}() guarded by file_insertion_enabled"
        if _insertion_guard_facts(corpus, run, st):
            rep.ok("C20.R3", k, run.module.site(c), why)
        else:
            rep.violation("C20.R3", k, run.module.site(c), f"`{short(c, 60)}` {why} and is not dominated by the file_insertion_enabled test: the include directive touches the disk although file insertion is disabled")
        rep.saw_call(run.module.site(c))
    helper_reads = [c for c in _own_calls(run) if any(isinstance(t, FunctionInfo) and t.fq in reader_funcs and t.fq != run.fq for t in g.resolve_call(c, run))]
    if not direct and not helper_reads:
        rep.error("C20.R3", "MockIncludeDirective.run contains no recognised file read (moved or rewritten in an unknown idiom)")
    if not guards:
        pass  # every read above is then a violation; nothing more to say
    elif not refusal_ok and not any(i.rule == "C20.R3" and i.status == "violation" for i in rep.items):
        rep.error("C20.R3", "a file_insertion_enabled test exists in MockIncludeDirective.run but none has the recognised refusal form")
    # (c) other readers
    # what a directive does itself: the search stops where markdown text re-enters the renderer
    dir_entries = _directive_entries(corpus, rd)
    for e, why in dir_entries[1:]:
        rep.listed("C20.R3", f"{e.fq}|directive entry", e.site(), why)
    reach_rd = _reach(corpus, [e for e, _ in dir_entries], stop=lambda f: f.name == "nested_render_text")
    for fi, c, what in reads:
        if fi.fq == run.fq:
            continue
        k = f"{fi.fq}|{short(c, 60)}"
        site = fi.module.site(c)
        owner = fi
        while owner.parent_func is not None:
            owner = owner.parent_func
        if fi.fq not in reach_rd:
            rep.listed("C20.R3", k, site, f"{what}: not reachable from run_directive (search stops where text re-enters the renderer)" + (f"; {TABLED_READERS[owner.fq]}" if owner.fq in TABLED_READERS else ""))
        elif owner.fq in TABLED_READERS:
            if _tabled_shape_ok(corpus, g):
                rep.assumed("C20.R3", k, site, TABLED_READERS[owner.fq])
            else:
                rep.violation("C20.R3", k, site, f"{what} in {fi.qualname}: the inventory loader is no longer fed from global-only configuration alone, so a document can name the file it reads", reach_rd.get(fi.fq, []))
        else:
            if (_check_guard_forms(fi) or _insertion_guard_facts(corpus, fi, get_cfg(fi).stmt_of(c))) if not fi.is_lambda else False:
                rep.ok("C20.R3", k, site, f"{what} behind its own file_insertion_enabled test")
            elif not fi.is_lambda and _all_callers_guarded(corpus, fi):
                rep.ok("C20.R3", k, site, f"{what}: every call site of {fi.qualname} is behind a file_insertion_enabled test")
            else:
                rep.violation("C20.R3", k, site, f"{what} in {fi.qualname} is reachable from run_directive and consults no file_insertion_enabled test: a directive can read a file although file insertion is disabled", reach_rd[fi.fq])
    rep.expect_min("C20.R3", 3, "the refusal, the read_text call and the nested render of the included text")


def _tabled_shape_ok(corpus: Corpus, g) -> bool:
    """inventories is a global-only field and fetch_inventory's only render-path caller iterates md_config.inventories."""

    def compute():
        ci = corpus.cls("config.main:MdParserConfig")
        ok_field = False
        for st in ci.node.body:
            if isinstance(st, ast.AnnAssign) and isinstance(st.target, ast.Name) and st.target.id == "inventories" and isinstance(st.value, ast.Call):
                md = kwarg(st.value, "metadata")
                if isinstance(md, ast.Dict):
                    for kk, vv in zip(md.keys, md.values):
                        if is_const(kk, "global_only") and is_const(vv, True):
                            ok_field = True
        fetch = corpus.func("inventory:fetch_inventory")
        callers = g.callers().get(fetch.fq, [])
        ok_callers = True
        for fi, call in callers:
            if fi.module.name.endswith(".inventory"):
                continue  # the CLI
            loops = [a for a in _ancestors_local(call) if isinstance(a, ast.For)]
            if not any("md_config.inventories" in unparse(lp.iter) for lp in loops):
                ok_callers = False
        return ok_field and ok_callers and bool(callers)

    return corpus.cache("c20-tabled-shape", compute)


def _ancestors_local(n: ast.AST):
    p = parent(n)
    while p is not None and not isinstance(p, (ast.FunctionDef, ast.AsyncFunctionDef, ast.Lambda)):
        yield p
        p = parent(p)


# ---------------------------------------------------------------------------
# R4 settings are shared, documents are real

DOC_CTORS = ("make_document", "new_document", "document")


def _judge_nested_document(corpus: Corpus, rep: Report, rr: FunctionInfo, pc: ast.Call, darg: ast.expr | None, k: str, depth: int) -> None:
    """The document passed at ``pc`` (a call in ``rr``) must carry the outer settings when the call runs.
    A document that is a parameter of ``rr`` is followed to the call sites of ``rr``."""
    g = get_callgraph(corpus)
    cfg = get_cfg(rr)
    if not isinstance(darg, ast.Name):
        raise Unsupported(f"{rr.module.site(pc)}: document argument `{short(darg, 30) if darg is not None else '?'}` is not a local name")
    dn = darg.id
    pst = cfg.stmt_of(pc)
    stores = [n for n in rr.local_nodes() if isinstance(n, ast.Assign) and any(unparse(t) == f"{dn}.settings" for t in n.targets)]
    if dn in rr.params and not any(cfg.dominates(st_, pst) for st_ in stores):
        # the nested document is made by the caller
        callers = [(cf, cc) for cf, cc in g.callers().get(rr.fq, []) if cf.fq != rr.fq]
        if depth >= 2 or not callers or any(cf.is_lambda for cf, _ in callers):
            raise Unsupported(f"{rr.module.site(pc)}: the nested document `{dn}` is a parameter whose origin cannot be followed")
        idx = rr.params.index(dn) - (1 if rr.cls is not None and rr.params and rr.params[0] in ("self", "cls") else 0)
        for cf, cc in callers:
            _judge_nested_document(corpus, rep, cf, cc, arg_or_kw(cc, idx, dn), k, depth + 1)
        return
    created = _deref(darg, rr)
    via_ctor = isinstance(created, ast.Call) and any(_settings_kind(a, rr) == "outer" for a in list(created.args) + [kw.value for kw in created.keywords])
    if via_ctor:
        # a package helper that is handed the outer settings must make them the settings of the document it returns
        bad = _helper_drops_settings(corpus, rr, created)
        if bad is not None:
            rep.violation("C20.R4", k, bad[1], bad[0])
            return
    kinds = [(st_, _settings_kind(st_.value, rr)) for st_ in stores]
    good = [st_ for st_, kd in kinds if kd == "outer"]
    fresh = [st_ for st_, kd in kinds if kd == "fresh"]
    unknown = [st_ for st_, kd in kinds if kd == "unknown"]
    if fresh:
        rep.violation("C20.R4", k, rr.module.site(fresh[0]), f"`{short(fresh[0], 60)}`: the nested rST document gets newly created default settings, so raw_enabled/file_insertion_enabled of the build are not seen by rST directives inside eval-rst")
    elif unknown:
        raise Unsupported(f"{rr.module.site(unknown[0])}: cannot tell where `{short(unknown[0].value, 50)}` comes from")
    elif via_ctor or any(cfg.dominates(st_, pst) for st_ in good):
        rep.ok("C20.R4", k, rr.module.site(good[0] if good else created), "settings object (or a copy of it) shared before the nested parse")
    elif good:
        rep.violation("C20.R4", k, rr.module.site(good[0]), "the settings are shared only after (or not on every path before) the nested rST parse has run")
    else:
        # the document may come ready-made from a helper that shares the settings itself
        if isinstance(created, ast.Call):
            for t in g.flat_targets(g.resolve_call(created, rr)):
                if not t.is_lambda and any(isinstance(n, ast.Assign) and any(isinstance(x, ast.Attribute) and x.attr == "settings" for x in n.targets) and _settings_kind(n.value, t) == "outer" for n in t.local_nodes()):
                    rep.ok("C20.R4", k, rr.module.site(created), f"{t.qualname}() returns the nested document with the outer settings attached")
                    return
        # no store of a settings object: is the fresh settings object filled from the outer one, and how?
        verdict = _fill_verdict(rr, dn, pst, cfg)
        if verdict is None:
            rep.violation("C20.R4", k, rr.module.site(pc), f"the nested rST parser runs on `{dn}` with freshly created default settings (raw and file insertion enabled): `.. include::`, `.. raw:: :file:` and `.. csv-table:: :file:` inside eval-rst read files although file insertion is disabled")
        elif verdict[0] == "ok":
            rep.ok("C20.R4", k, rr.module.site(verdict[2]), verdict[1])
        else:
            rep.violation("C20.R4", k, rr.module.site(verdict[2]), verdict[1])


def _given_fact(test: ast.expr, pol: bool, p: str) -> bool | None:
    """True: the fact says parameter ``p`` was given (not None / truthy); False: it says it was not; None: unrelated."""
    if isinstance(test, ast.Name) and test.id == p:
        return pol
    if isinstance(test, ast.Compare) and len(test.ops) == 1 and isinstance(test.left, ast.Name) and test.left.id == p and is_const(test.comparators[0], None):
        if isinstance(test.ops[0], (ast.IsNot, ast.NotEq)):
            return pol
        if isinstance(test.ops[0], (ast.Is, ast.Eq)):
            return not pol
    return None


def _is_merge(e: ast.expr) -> bool:
    return (isinstance(e, ast.Dict) and bool(e.keys) and any(k_ is None for k_ in e.keys)) or (isinstance(e, ast.BinOp) and isinstance(e.op, ast.BitOr))


def _settings_winner(e: ast.expr | None, t: FunctionInfo, p: str, at, depth: int = 0) -> str:
    """In helper ``t`` called with the outer settings as parameter ``p``: whose raw_enabled / file_insertion_enabled
    does the settings expression ``e`` (evaluated at CFG statement ``at``) carry - 'param' or 'fresh' (newly created
    defaults)?  Both objects define both switches, so in a merge the LAST operand decides.  Unknown shape: Unsupported."""
    site = t.module.site(e if e is not None else t.node)
    if e is None or depth > 6:
        raise Unsupported(f"{site}: cannot tell which settings the helper {t.qualname}() gives to the document it returns")
    cfg = get_cfg(t)
    if isinstance(e, ast.Name):
        stores = [n for n in t.local_nodes() if isinstance(n, ast.Name) and n.id == e.id and isinstance(n.ctx, ast.Store)]
        defs = [n for n in t.local_nodes() if isinstance(n, ast.Assign) and len(n.targets) == 1 and isinstance(n.targets[0], ast.Name) and n.targets[0].id == e.id]
        if len(stores) != len(defs):
            raise Unsupported(f"{site}: `{e.id}` is bound by something other than a plain assignment in {t.qualname}()")
        live = []
        for d in defs:
            if d is at or at not in cfg.reachable_from(d):
                continue
            gv = [_given_fact(ft, fp, p) for ft, fp in cfg.guards(d)]
            if False in gv:
                continue  # only runs when the parameter was not given
            live.append((d, True in gv))
        if not live:
            if e.id == p:
                return "param"
            raise Unsupported(f"{site}: no definition of `{e.id}` reaches this use in {t.qualname}()")
        if e.id == p and any(not gd for _, gd in live):
            raise Unsupported(f"{site}: parameter `{p}` is rebound in {t.qualname}()")
        given = [d for d, gd in live if gd]
        plain = [d for d, gd in live if not gd]
        if len(given) == 1 and all(given[0] in cfg.reachable_from(d) and d not in cfg.reachable_from(given[0]) for d in plain):
            return _settings_winner(given[0].value, t, p, given[0], depth + 1)
        if not given and len(plain) == 1:
            return _settings_winner(plain[0].value, t, p, plain[0], depth + 1)
        raise Unsupported(f"{site}: several definitions of `{e.id}` reach this use in {t.qualname}()")
    if isinstance(e, ast.Attribute) and e.attr == "__dict__":
        return _settings_winner(e.value, t, p, at, depth + 1)
    if isinstance(e, ast.IfExp):
        fs = facts(e.test, True)
        gv = _given_fact(fs[0][0], fs[0][1], p) if len(fs) == 1 else None
        if gv is True:
            return _settings_winner(e.body, t, p, at, depth + 1)
        if gv is False:
            return _settings_winner(e.orelse, t, p, at, depth + 1)
        raise Unsupported(f"{site}: conditional settings `{short(e, 50)}` not decided by parameter `{p}`")
    if isinstance(e, ast.BoolOp) and isinstance(e.op, ast.Or) and isinstance(e.values[0], ast.Name) and e.values[0].id == p:
        return _settings_winner(e.values[0], t, p, at, depth + 1)
    if isinstance(e, ast.Dict) and e.keys and all(k_ is None for k_ in e.keys):
        return _settings_winner(e.values[-1], t, p, at, depth + 1)
    if isinstance(e, ast.BinOp) and isinstance(e.op, ast.BitOr):
        return _settings_winner(e.right, t, p, at, depth + 1)
    if isinstance(e, ast.Call):
        d = dotted(e.func) or ""
        last = d.rsplit(".", 1)[-1]
        one = e.args[0] if len(e.args) == 1 and not e.keywords and not isinstance(e.args[0], ast.Starred) else None
        if last in ("copy", "deepcopy"):
            src = e.args[0] if e.args else (e.func.value if isinstance(e.func, ast.Attribute) else None)
            return _settings_winner(src, t, p, at, depth + 1)
        if d == "vars" and one is not None:
            return _settings_winner(one, t, p, at, depth + 1)
        if d == "dict" and e.args and not isinstance(e.args[0], ast.Starred) and len(e.args) == 1:
            kws = [kw for kw in e.keywords]
            if not kws:
                return _settings_winner(e.args[0], t, p, at, depth + 1)
            if all(kw.arg is None for kw in kws):
                return _settings_winner(kws[-1].value, t, p, at, depth + 1)
        wraps = d in ("Values", "optparse.Values", "frontend.Values", "docutils.frontend.Values") or (
            isinstance(e.func, ast.Call) and dotted(e.func.func) == "type" and len(e.func.args) == 1
        )
        if wraps and one is not None:
            # a settings object rebuilt from a mapping: Values(mapping) / type(settings)(mapping)
            return _settings_winner(one, t, p, at, depth + 1)
        if last in FRESH_SETTINGS and not any(isinstance(n, ast.Name) and n.id == p for n in ast.walk(e)):
            return "fresh"
    raise Unsupported(f"{site}: cannot tell whether `{short(e, 60)}` carries the settings given to {t.qualname}() or new defaults")


def _helper_drops_settings(corpus: Corpus, rr: FunctionInfo, created: ast.Call) -> tuple[str, str] | None:
    """``created`` (in ``rr``) makes the nested document and is handed the outer settings.  A library constructor
    (docutils' new_document / nodes.document) takes the object as it is.  A package helper must make that argument
    win in the settings of every document it returns: None when it does, (message, site) when new defaults win."""
    g = get_callgraph(corpus)
    targets = [t for t in g.flat_targets(g.resolve_call(created, rr)) if not t.is_lambda]
    for t in targets:
        off = 1 if t.cls is not None and t.params and t.params[0] in ("self", "cls") else 0
        names = []
        for i, a in enumerate(created.args):
            if isinstance(a, ast.Starred):
                raise Unsupported(f"{rr.module.site(created)}: starred arguments to {t.qualname}()")
            if _settings_kind(a, rr) == "outer":
                if i + off >= len(t.params) or t.node.args.vararg is not None and i + off >= len(t.node.args.posonlyargs) + len(t.node.args.args):
                    raise Unsupported(f"{rr.module.site(created)}: cannot match the settings argument to a parameter of {t.qualname}()")
                names.append(t.params[i + off])
        for kw in created.keywords:
            if _settings_kind(kw.value, rr) == "outer":
                if kw.arg is None or kw.arg not in t.params:
                    raise Unsupported(f"{rr.module.site(created)}: cannot match the settings argument to a parameter of {t.qualname}()")
                names.append(kw.arg)
        if len(names) != 1:
            raise Unsupported(f"{rr.module.site(created)}: the outer settings are passed {len(names)} times to {t.qualname}()")
        p = names[0]
        cfg = get_cfg(t)
        rets = [n for n in t.local_nodes() if isinstance(n, ast.Return)]
        if not rets or t.is_generator():
            raise Unsupported(f"{t.site()}: {t.qualname}() does not return the document it makes")
        for r in rets:
            v = r.value
            sexpr = None
            at = r
            if isinstance(v, ast.Name):
                sstores = [n for n in t.local_nodes() if isinstance(n, ast.Assign) and any(unparse(x) == f"{v.id}.settings" for x in n.targets)]
                if len(sstores) == 1 and cfg.dominates(sstores[0], r):
                    sexpr, at = sstores[0].value, sstores[0]
                elif sstores:
                    raise Unsupported(f"{t.module.site(sstores[0])}: `{v.id}.settings` is not assigned exactly once before the return of {t.qualname}()")
                else:
                    ddefs = [n for n in t.local_nodes() if isinstance(n, ast.Assign) and any(isinstance(x, ast.Name) and x.id == v.id for x in n.targets)]
                    if len(ddefs) != 1 or not cfg.dominates(ddefs[0], r):
                        raise Unsupported(f"{t.module.site(r)}: cannot find where the returned document `{v.id}` is made")
                    v, at = ddefs[0].value, ddefs[0]
            if sexpr is None:
                if not isinstance(v, ast.Call):
                    raise Unsupported(f"{t.module.site(r)}: {t.qualname}() returns `{short(v, 40) if v is not None else 'None'}`, not a newly made document")
                full = t.module.resolve(dotted(v.func) or "") or ""
                last = (dotted(v.func) or "").rsplit(".", 1)[-1]
                if last == "new_document" and not g.flat_targets(g.resolve_call(v, t)):
                    sexpr = arg_or_kw(v, 1, "settings")
                elif full == "docutils.nodes.document":
                    sexpr = arg_or_kw(v, 0, "settings")
                else:
                    raise Unsupported(f"{t.module.site(v)}: the document returned by {t.qualname}() is made by `{short(v.func, 40)}`, which the rule does not follow")
                if sexpr is None:
                    return (f"{t.qualname}() is handed the outer document's settings as `{p}` but makes the document without a settings argument (docutils then creates defaults: raw and file insertion enabled)", t.module.site(v))
            if _settings_winner(sexpr, t, p, at) == "fresh":
                return (
                    f"{t.qualname}() is handed the outer document's settings as `{p}`, but in `{short(sexpr, 40)}` newly created parser defaults decide "
                    "raw_enabled / file_insertion_enabled (the parameter is ignored, or the defaults are the last - winning - operand of the merge): "
                    "rST directives inside eval-rst read files although file insertion is disabled",
                    t.module.site(sexpr),
                )
    return None


@rule("C20.R4")
def r4_shared_settings_real_documents(corpus: Corpus, rep: Report, tier: str):
    rep.rule("C20.R4", "the nested rST parse runs on a document carrying the outer document's settings object; every mock exposes the renderer's real document")
    g = get_callgraph(corpus)
    # (a) eval-rst: every place that runs the rST parser on a nested document
    mock_parse = corpus.func("mocking:MockRSTParser.parse")
    sites: list[tuple[FunctionInfo, ast.Call]] = []
    for f in corpus.all_functions():
        if f.is_lambda or f.fq == mock_parse.fq:
            continue
        for c in _own_calls(f):
            if not (isinstance(c.func, ast.Attribute) and c.func.attr == "parse"):
                continue
            ts = g.resolve_call(c, f)
            hit = any(t.fq == mock_parse.fq for t in g.flat_targets(ts))
            if not hit:
                recv = _deref(c.func.value, f)
                rc = dotted(recv.func) if isinstance(recv, ast.Call) else None
                full = f.module.resolve(rc) if rc else ""
                hit = full.endswith(".MockRSTParser") or full in ("docutils.parsers.rst.Parser", "docutils.parsers.rst.Parser.Parser")
            if hit:
                sites.append((f, c))
    if not sites:
        raise Unsupported("no call of the nested rST parser (MockRSTParser().parse) found in the package")
    for f, pc in sites:
        rep.saw_function(f.fq)
        _judge_nested_document(corpus, rep, f, pc, arg_or_kw(pc, 1, "document"), f"{f.fq}|settings of the document given to {short(pc.func, 40)}", 0)
    # MockRSTParser.parse hands the same document on
    sup = [c for c in _own_calls(mock_parse) if (dotted(c.func) or "").startswith("super().") and c.func.attr == "parse"]  # type: ignore[union-attr]
    k = f"{mock_parse.fq}|passes its document to the rST parser"
    if len(sup) != 1:
        raise Unsupported(f"{mock_parse.site()}: expected one super().parse call")
    darg = arg_or_kw(sup[0], 1, "document")
    if isinstance(darg, ast.Name) and darg.id in mock_parse.params:
        rep.ok("C20.R4", k, mock_parse.module.site(sup[0]))
    else:
        rep.violation("C20.R4", k, mock_parse.module.site(sup[0]), f"super().parse is given `{short(darg, 30) if darg is not None else '?'}`, not the document parameter")
    # (b) the mocks
    mk = corpus.mod("mocking")
    n_doc = 0
    for cname in ("MockInliner", "MockState", "MockStateMachine", "MockIncludeDirective"):
        ci = mk.cls(cname)
        init = ci.methods.get("__init__")
        if init is None:
            raise AnchorMissing(f"{ci.fq}.__init__")
        rparams = _renderer_params(init)
        found = 0
        for m in ci.methods.values():
            for n in m.local_nodes():
                if isinstance(n, (ast.Assign, ast.AnnAssign)):
                    tgts = n.targets if isinstance(n, ast.Assign) else [n.target]
                    if any(unparse(t) == "self.document" for t in tgts) and n.value is not None:
                        found += 1
                        n_doc += 1
                        _judge_doc_value(rep, m, n, n.value, rparams, f"{ci.fq}.document")
        if not found:
            raise AnchorMissing(f"{ci.fq} no longer assigns self.document")
        # class bodies nested in the methods (MockState.memo Struct)
        for q, inner in mk.classes.items():
            if q.startswith(f"{cname}.") and q != cname:
                owner = None
                for m in ci.methods.values():
                    if any(x is inner.node for x in ast.walk(m.node)):
                        owner = m
                for st in inner.node.body:
                    if isinstance(st, ast.Assign) and any(isinstance(t, ast.Name) and t.id == "document" for t in st.targets) and owner is not None:
                        n_doc += 1
                        _judge_doc_value(rep, owner, st, st.value, _renderer_params(owner) or rparams, f"{inner.fq}.document")
    if n_doc < 4:
        rep.error("C20.R4", f"expected a document attribute in each of the four mocks, found {n_doc}")
    # (c) the mocks are built around the renderer itself
    mocks = {f"{mk.name}.{n}" for n in ("MockInliner", "MockState", "MockStateMachine", "MockIncludeDirective")}
    rcls = _renderer_classes(corpus)
    for fi in corpus.all_functions():
        if fi.is_lambda:
            continue
        for c in _own_calls(fi):
            full = fi.module.resolve(dotted(c.func) or "")
            if full not in mocks:
                continue
            owner = fi
            while owner.parent_func is not None:
                owner = owner.parent_func
            k = f"{fi.fq}|{full.rsplit('.', 1)[-1]}(renderer={short(arg_or_kw(c, 0, 'renderer'), 30) if arg_or_kw(c, 0, 'renderer') is not None else '?'})"
            a0 = _deref(arg_or_kw(c, 0, "renderer"), fi)
            text = unparse(a0) if a0 is not None else "?"
            in_renderer = owner.cls is not None and owner.cls.fq in rcls
            in_mock = owner.cls is not None and f"{owner.cls.module.name}.{owner.cls.name}" in mocks
            if in_renderer and text == "self":
                rep.ok("C20.R4", k, fi.module.site(c), "mock wraps the running renderer")
            elif in_mock and (text in ("self.renderer", "self._renderer") or (isinstance(a0, ast.Name) and a0.id in _renderer_params(fi))):
                rep.ok("C20.R4", k, fi.module.site(c), "mock hands on the renderer it was built around")
            elif isinstance(a0, ast.Call):
                rep.violation("C20.R4", k, fi.module.site(c), f"the mock is built around a new object `{short(a0, 40)}`, not the running renderer: directives would see another document's settings")
            else:
                raise Unsupported(f"{fi.module.site(c)}: cannot tell which renderer `{text}` is")
    rep.expect_min("C20.R4", 8, "eval-rst settings, MockRSTParser pass-through, >= 4 mock documents, mock constructions")


def _outer_texts(fi: FunctionInfo) -> set[str]:
    out = {"self.document.settings", "self.renderer.document.settings", "self._renderer.document.settings"}
    for p_ in fi.params:
        if p_ not in ("self", "cls"):
            out.add(f"{p_}.settings")
            out.add(f"{p_}.document.settings")
    return out


def _is_outer_settings(e: ast.expr | None, fi: FunctionInfo) -> bool:
    e = _deref(e, fi)
    return e is not None and unparse(e) in _outer_texts(fi)


FRESH_SETTINGS = ("make_document", "new_document", "get_default_settings", "get_default_values", "OptionParser", "Values")


def _settings_kind(e: ast.expr | None, fi: FunctionInfo) -> str:
    """'outer' (the outer document's settings object or a copy of it), 'fresh' (newly created defaults), 'unknown'."""
    e = _deref(e, fi)
    if e is None:
        return "unknown"
    if unparse(e) in _outer_texts(fi):
        return "outer"
    if isinstance(e, ast.Call):
        d = dotted(e.func) or ""
        last = d.rsplit(".", 1)[-1]
        if last in ("copy", "deepcopy"):
            src = e.args[0] if e.args else (e.func.value if isinstance(e.func, ast.Attribute) else None)
            if src is not None and _is_outer_settings(src, fi):
                return "outer"
        if last in FRESH_SETTINGS:
            return "fresh"
    for n in ast.walk(e):
        if isinstance(n, ast.Call) and (dotted(n.func) or "").rsplit(".", 1)[-1] in FRESH_SETTINGS:
            return "fresh"
    return "unknown"


def _fill_verdict(fi: FunctionInfo, dn: str, pst, cfg):
    """When the nested document keeps its own settings object: how is it filled from the outer settings
    before the parse?  None = not at all; ('ok'|'bad', message, node)."""
    target = f"{dn}.settings"
    found = None
    copied = {}
    for n in fi.local_nodes():
        if isinstance(n, ast.Assign) and len(n.targets) == 1 and isinstance(n.targets[0], ast.Attribute) and unparse(n.targets[0].value) == target:
            sw = n.targets[0].attr
            if sw in ("raw_enabled", "file_insertion_enabled") and cfg.dominates(n, pst):
                r = _setting_root(n.value, sw, fi)
                if r is not None and f"{unparse(r)}.settings" in _outer_texts(fi):
                    copied[sw] = n
    if len(copied) == 2:
        found = ("ok", "both switches are copied from the outer document's settings before the nested parse", copied["file_insertion_enabled"])
    for c in _own_calls(fi):
        st = cfg.stmt_of(c)
        if not (cfg.dominates(st, pst) or any(cfg.dominates(a, pst) for a in _enclosing_loops(c))):
            continue
        text_args = [unparse(a) for a in c.args]
        f = c.func
        recv = unparse(f.value) if isinstance(f, ast.Attribute) else ""
        touches = recv.startswith(target) or (dotted(f) == "setattr" and c.args and unparse(c.args[0]) == target)
        if not touches:
            continue
        ctx = unparse(_outermost_stmt_in(fi, c))
        from_outer = any(t in ctx for t in _outer_texts(fi))
        if isinstance(f, ast.Attribute) and f.attr == "setdefault":
            return ("bad", f"`{short(c, 60)}` only fills settings that `{dn}` lacks: raw_enabled and file_insertion_enabled have defaults (both on) in the fresh rST settings, so the build's values never arrive and file-reading directives inside eval-rst run although file insertion is disabled", c)
        if from_outer and ((dotted(f) == "setattr") or (isinstance(f, ast.Attribute) and f.attr in ("update", "__setattr__", "_update_loose"))):
            found = ("ok", f"every outer setting is copied over the fresh ones by `{short(c, 50)}` before the nested parse", c)
        elif found is None:
            raise Unsupported(f"{fi.module.site(c)}: `{short(c, 60)}` modifies {target} in a way the rule does not understand")
    return found


def _enclosing_loops(n: ast.AST):
    for a in _ancestors_local(n):
        if isinstance(a, (ast.For, ast.While)):
            yield a


def _outermost_stmt_in(fi: FunctionInfo, n: ast.AST) -> ast.AST:
    cur = n
    p = parent(cur)
    while p is not None and p is not fi.node:
        cur = p
        p = parent(cur)
    return cur


def _renderer_params(fi: FunctionInfo) -> set[str]:
    out = set()
    a = fi.node.args
    for x in a.posonlyargs + a.args + a.kwonlyargs:
        ann = unparse(x.annotation).strip("'\"") if x.annotation is not None else ""
        if ann.endswith("DocutilsRenderer") or x.arg == "renderer":
            out.add(x.arg)
    return out


def _judge_doc_value(rep: Report, fi: FunctionInfo, st: ast.stmt, value: ast.expr, rparams: set[str], label: str) -> None:
    v = _deref(value, fi)
    text = unparse(v)
    k = f"{label} = {short(value, 50)}"
    site = fi.module.site(st)
    allowed = {f"{p}.document" for p in rparams} | {"self.document", "self._renderer.document", "self.renderer.document"}
    if text in allowed:
        rep.ok("C20.R4", k, site, "the renderer's document (its settings are the build's settings)")
        return
    if isinstance(v, ast.Call) and (dotted(v.func) or "").rsplit(".", 1)[-1] in DOC_CTORS:
        rep.violation("C20.R4", k, site, f"the mock exposes a freshly created document (`{short(v, 50)}`) instead of the renderer's: docutils' raw/include/csv-table checks read default settings (raw and file insertion enabled)")
        return
    raise Unsupported(f"{site}: `{short(st, 60)}` - cannot tell whether this is the renderer's document")


# ---------------------------------------------------------------------------
# R5 the package only reads the two switches

SWITCHES = ("raw_enabled", "file_insertion_enabled")


def _falsy_const(e: ast.expr | None) -> bool:
    return isinstance(e, ast.Constant) and e.value in (False, 0, None) and not isinstance(e.value, str)


@rule("C20.R5")
def r5_switches_are_read_only(corpus: Corpus, rep: Report, tier: str):
    rep.rule("C20.R5", "the package never switches raw_enabled / file_insertion_enabled on: no attribute store, setattr, settings-override dict entry or keyword argument gives them a value other than False")
    n_reads = 0
    for m in corpus.modules.values():
        for n in ast.walk(m.tree):
            fi = None
            where = m.name
            site = m.site(n) if hasattr(n, "lineno") else m.rel
            hits: list[tuple[str, ast.expr | None, str]] = []  # (switch, value, how)
            if isinstance(n, (ast.Assign, ast.AugAssign, ast.AnnAssign)):
                tgts = n.targets if isinstance(n, ast.Assign) else [n.target]
                flat = []
                for t in tgts:
                    flat.extend(t.elts if isinstance(t, (ast.Tuple, ast.List)) else [t])
                for t in flat:
                    if isinstance(t, ast.Attribute) and t.attr in SWITCHES:
                        single = isinstance(n, (ast.Assign, ast.AnnAssign)) and len(flat) == 1
                        hits.append((t.attr, n.value if single else None, f"`{short(n, 70)}`"))
                    elif isinstance(t, ast.Subscript) and isinstance(t.slice, ast.Constant) and t.slice.value in SWITCHES:
                        hits.append((t.slice.value, n.value if isinstance(n, ast.Assign) and len(flat) == 1 else None, f"`{short(n, 70)}`"))
            elif isinstance(n, ast.Call):
                d = dotted(n.func) or ""
                if d in ("setattr",) and len(n.args) == 3 and isinstance(n.args[1], ast.Constant) and n.args[1].value in SWITCHES:
                    hits.append((n.args[1].value, n.args[2], f"`{short(n, 70)}`"))
                elif isinstance(n.func, ast.Attribute) and n.func.attr in ("setdefault", "__setitem__", "set_defaults_from_dict") and n.args and isinstance(n.args[0], ast.Constant) and n.args[0].value in SWITCHES:
                    hits.append((n.args[0].value, n.args[1] if len(n.args) > 1 else None, f"`{short(n, 70)}`"))
                for kw in n.keywords:
                    if kw.arg in SWITCHES:
                        hits.append((kw.arg, kw.value, f"keyword argument in `{short(n, 60)}`"))
            elif isinstance(n, ast.Dict):
                for kk, vv in zip(n.keys, n.values):
                    if isinstance(kk, ast.Constant) and kk.value in SWITCHES:
                        hits.append((kk.value, vv, f"dict entry `{kk.value!r}: {short(vv, 30)}`"))
            elif isinstance(n, ast.Attribute) and n.attr in SWITCHES and isinstance(n.ctx, ast.Load):
                n_reads += 1
                rep.ok("C20.R5", f"{_where(n, m)}|reads {n.attr}", site, "read-only use")
            if isinstance(n, ast.Call) and dotted(n.func) == "getattr" and len(n.args) >= 2 and isinstance(n.args[1], ast.Constant) and n.args[1].value in SWITCHES:
                n_reads += 1
                rep.ok("C20.R5", f"{_where(n, m)}|reads {n.args[1].value}", site, "read-only use (getattr)")
            for sw, val, how in hits:
                k = f"{_where(n, m)}|sets {sw}|{short(val, 40) if val is not None else '?'}"
                fn = enclosing_function(n)
                if _falsy_const(val):
                    rep.ok("C20.R5", k, site, f"{how} can only switch {sw} off")
                elif val is not None and fn is not None and not fn.is_lambda and _setting_root(val, sw, fn) is not None:
                    rep.ok("C20.R5", k, site, f"{how} copies the same switch from `{short(_setting_root(val, sw, fn), 40)}`.settings")
                elif not (isinstance(val, ast.Constant) and val.value):
                    raise Unsupported(f"{site}: {how}: cannot tell which value {sw} receives")
                else:
                    rep.violation("C20.R5", k, site, f"{how} gives the security switch {sw} a value of the package's choosing: a user who disabled it (docutils.conf, settings_overrides, command line) is overruled for whatever runs afterwards")
    if n_reads < 2:
        rep.error("C20.R5", f"expected the raw_enabled / file_insertion_enabled reads of the filter and the include mock, found {n_reads}")


def _where(n: ast.AST, m) -> str:
    f = enclosing_function(n)
    return f.fq if f is not None else m.name


# ---------------------------------------------------------------------------
# R6 document-supplied template expressions run sandboxed

UNSAFE_TEMPLATE = {
    "jinja2.Environment": "jinja2.Environment",
    "jinja2.environment.Environment": "jinja2.Environment",
    "jinja2.Template": "jinja2.Template (uses the shared, unsandboxed environment)",
    "jinja2.environment.Template": "jinja2.Template (uses the shared, unsandboxed environment)",
    "jinja2.nativetypes.NativeEnvironment": "jinja2 NativeEnvironment",
}
SAFE_TEMPLATE = {"jinja2.sandbox.SandboxedEnvironment", "jinja2.sandbox.ImmutableSandboxedEnvironment"}


SANDBOX_HOOKS = ("is_safe_attribute", "is_safe_callable", "getattr", "getitem", "call", "unsafe_undefined", "call_binop", "call_unop")


def _sandbox_hooks_weakened(ci) -> tuple[FunctionInfo, str] | None:
    """A subclass of the sandbox may only *restrict* the safety hooks: every value an override of
    is_safe_attribute / is_safe_callable returns must be False or be conjoined with (or guarded by) the
    base class's verdict `super().<hook>(...)`; getattr/getitem/call overrides must delegate to super()."""
    for name in SANDBOX_HOOKS:
        m = ci.methods.get(name)
        if m is None:
            continue
        sup = [c for c in _own_calls(m) if (dotted(c.func) or "") == f"super().{name}"]
        if not sup:
            return m, f"does not consult super().{name}() at all"
        if name not in ("is_safe_attribute", "is_safe_callable"):
            continue
        cfg = get_cfg(m)
        sup_names = {t.id for n in m.local_nodes() if isinstance(n, ast.Assign) and n.value in sup for t in n.targets if isinstance(t, ast.Name)}

        def is_sup(e: ast.expr) -> bool:
            return e in sup or (isinstance(e, ast.Name) and e.id in sup_names)

        for r in [n for n in m.local_nodes() if isinstance(n, ast.Return)]:
            v = r.value
            if v is None or (isinstance(v, ast.Constant) and not v.value):
                continue
            if is_sup(v) or (isinstance(v, ast.BoolOp) and isinstance(v.op, ast.And) and any(is_sup(x) for x in v.values)):
                continue
            if any(pol and is_sup(t) for t, pol in cfg.guards(r)):
                continue  # only reached when the base class already said yes
            return m, f"can return `{short(v, 50)}` without the base class's verdict (super().{name}() is not a conjunct or guard of that result)"
    return None


def _is_live_env(e: ast.expr | None, fi: FunctionInfo) -> bool:
    """The expression denotes the running Sphinx BuildEnvironment (or its application)."""
    e = _deref(e, fi)
    if e is None:
        return False
    t = unparse(e)
    return t.endswith(("sphinx_env", ".settings.env", ".env.app", "sphinx_env.app")) or t in ("env.app",)


@rule("C20.R6")
def r6_templates_sandboxed(corpus: Corpus, rep: Report, tier: str):
    rep.rule("C20.R6", "every template environment that evaluates expressions taken from the document (substitutions) is jinja2's SandboxedEnvironment: a plain Environment lets `{{ x.__globals__[...] }}` reach open() and the settings object")
    fes, _ = front_ends(corpus)
    reach: dict[str, list[str]] = {}
    for fe in fes:
        rm = corpus.lookup_method(fe.renderer, "render")
        if rm is not None:
            for fq, chain in _reach(corpus, [rm]).items():
                reach.setdefault(fq, chain)
    safe = set(SAFE_TEMPLATE)
    weakened: dict[str, tuple[FunctionInfo, str]] = {}
    for _ in range(3):
        for ci in corpus.all_classes():  # package subclasses of a sandboxed environment
            full_ = f"{ci.module.name}.{ci.name}"
            if full_ not in safe and any(b in safe for b in ci.bases):
                safe.add(full_)
                for b in ci.bases:
                    if b in weakened:
                        weakened[full_] = weakened[b]
                bad = _sandbox_hooks_weakened(ci)
                if bad is not None:
                    weakened[full_] = bad
    n = 0
    by_fq = {f.fq: f for f in corpus.all_functions()}
    # shared (module-level) environments: NAME = <Environment class>(...) at the top level of a module
    shared_envs: dict[str, tuple[object, ast.Call, str]] = {}  # "<module>.<NAME>" -> (module, call, class)
    for m in corpus.modules.values():
        for nm, val in m.const_nodes.items():
            if isinstance(val, ast.Call):
                d = dotted(val.func)
                full = m.resolve(d) if d else ""
                if full in safe or full in UNSAFE_TEMPLATE or (full.startswith("jinja2.") and full.rsplit(".", 1)[-1].endswith(("Environment", "Template"))):
                    shared_envs[f"{m.name}.{nm}"] = (m, val, full)

    def users_of(shared: str) -> list[FunctionInfo]:
        out_ = []
        for fq_ in reach:
            f_ = by_fq.get(fq_)
            if f_ is None:
                continue
            nodes_ = f_.local_nodes() if not f_.is_lambda else list(ast.walk(f_.node.body))
            for x in nodes_:
                if isinstance(x, (ast.Name, ast.Attribute)) and isinstance(getattr(x, "ctx", None), ast.Load):
                    d_ = dotted(x)
                    if d_ and f_.module.resolve(d_) == shared:
                        out_.append(f_)
                        break
        return out_

    sites: list[tuple[str, str, str, bool, list[str], FunctionInfo | None]] = []  # (class, key, site, reachable, chain, function)
    for shared, (m, call_, full) in shared_envs.items():
        us = users_of(shared)
        sites.append((full, f"{shared}|{short(call_.func, 50)}(...) shared by the whole process", m.site(call_), bool(us), reach.get(us[0].fq, []) if us else [], None))
    for fi in corpus.all_functions():
        for c in _own_calls(fi):
            d = dotted(c.func)
            full = fi.module.resolve(d) if d else ""
            if not full.startswith("jinja2.") and full not in safe:
                continue
            last = full.rsplit(".", 1)[-1]
            if full not in safe and full not in UNSAFE_TEMPLATE and not last.endswith(("Environment", "Template")):
                continue
            owner = fi
            while owner.parent_func is not None:
                owner = owner.parent_func
            sites.append((full, f"{fi.fq}|{short(c.func, 50)}(...)", fi.module.site(c), owner.fq in reach or fi.fq in reach, reach.get(fi.fq, reach.get(owner.fq, [])), fi))
    for full, k, site, reachable_, chain_, fi in sites:
        last = full.rsplit(".", 1)[-1]
        if True:
            if not reachable_:
                rep.listed("C20.R6", k, site, "not reachable from a front end's render (templates there do not come from a parsed document)")
                continue
            n += 1
            if full in weakened:
                m_, why_ = weakened[full]
                rep.violation(
                    "C20.R6",
                    f"{m_.fq}|sandbox hook replaced",
                    m_.site(),
                    f"{last} derives from jinja2's sandbox but {m_.qualname} {why_}: the checks of the base class (is_internal_attribute: gi_frame/gi_code, cr_frame, "
                    "f_globals/tb_frame of frames, mro, func_globals, ...; unsafe callables) no longer apply to expressions written in the document, "
                    "which can then reach open() and the settings object again",
                    chain_,
                )
            elif full in safe:
                rep.ok("C20.R6", k, site, f"{last}: attribute access to internals (__globals__, __builtins__, ...) is refused")
            elif full in UNSAFE_TEMPLATE:
                rep.violation(
                    "C20.R6",
                    k,
                    site,
                    f"{UNSAFE_TEMPLATE[full]} evaluates expressions written in the document without a sandbox: "
                    "`{{ lipsum.__globals__[\"__builtins__\"][\"open\"](path).read() }}` inserts a file although file_insertion_enabled is false, "
                    "and an exec() through the same route switches document.settings.raw_enabled back on",
                    chain_,
                )
            else:
                raise Unsupported(f"{site}: unknown jinja2 environment class `{full}`")
    # (b) the sandbox cannot police a live application object graph: the Sphinx environment may only be handed to
    #     document-written expressions while both switches are on
    n_env = 0
    for fi in corpus.all_functions():
        if fi.is_lambda or fi.fq not in reach:
            continue
        uses_shared = {sh for sh in shared_envs if any(isinstance(x, (ast.Name, ast.Attribute)) and isinstance(getattr(x, "ctx", None), ast.Load) and dotted(x) and fi.module.resolve(dotted(x)) == sh for x in fi.local_nodes())}
        if not uses_shared and not any((fi.module.resolve(dotted(c.func) or "") in safe | set(UNSAFE_TEMPLATE)) for c in _own_calls(fi)):
            continue
        cfg = get_cfg(fi)
        # names of this function's context objects that (may) hold the live environment
        live_ctx = {unparse(n_.targets[0].value) for n_ in fi.local_nodes() if isinstance(n_, ast.Assign) and len(n_.targets) == 1 and isinstance(n_.targets[0], ast.Subscript) and _is_live_env(n_.value, fi)}
        for c in _own_calls(fi):
            f_ = c.func
            # <env>.globals.update(ctx) / <env>.globals[...] = ... on an environment that outlives the parse
            if isinstance(f_, ast.Attribute) and f_.attr in ("update", "setdefault") and isinstance(f_.value, ast.Attribute) and f_.value.attr == "globals":
                envx = _deref(f_.value.value, fi)
                dx = dotted(envx) if envx is not None else None
                sh = fi.module.resolve(dx) if dx else ""
                if sh in shared_envs:
                    carried = [a_ for a_ in list(c.args) + [kw.value for kw in c.keywords] if unparse(a_) in live_ctx or _is_live_env(a_, fi) or (isinstance(a_, ast.Dict) and any(v_ is not None and _is_live_env(v_, fi) for v_ in a_.values))]
                    k = f"{fi.fq}|globals of the shared template environment {sh.rsplit('.', 1)[-1]}"
                    if carried:
                        rep.violation(
                            "C20.R6",
                            k,
                            fi.module.site(c),
                            f"`{short(c, 60)}` copies a context that can hold the live Sphinx environment into the globals of the module-level environment {sh.rsplit('.', 1)[-1]}, which outlives the guard: "
                            "once one document was rendered with both switches on, `env` stays a global for every later document of the process, also where raw_enabled / file_insertion_enabled are off",
                        )
                    else:
                        rep.ok("C20.R6", k, fi.module.site(c), "no live application object is stored in the shared environment")
        for n_ in fi.local_nodes():
            exposures: list[tuple[ast.AST, ast.expr]] = []
            if isinstance(n_, ast.Assign) and len(n_.targets) == 1 and isinstance(n_.targets[0], ast.Subscript) and _is_live_env(n_.value, fi):
                exposures.append((n_, n_.value))
            elif isinstance(n_, ast.Dict):
                for kk, vv in zip(n_.keys, n_.values):
                    if vv is not None and _is_live_env(vv, fi):
                        exposures.append((n_, vv))
            elif isinstance(n_, ast.Call) and isinstance(n_.func, ast.Attribute) and n_.func.attr in ("render", "update", "setdefault"):
                for kw in n_.keywords:
                    if _is_live_env(kw.value, fi):
                        exposures.append((n_, kw.value))
            for node_, val_ in exposures:
                n_env += 1
                st = cfg.stmt_of(node_)
                fs = []
                for t_, pol_ in _guard_facts(cfg, st):
                    t2_ = _deref(t_, fi) if isinstance(t_, ast.Name) else t_
                    fs.extend(_facts(t2_, pol_) if t2_ is not t_ and t2_ is not None else [(t_, pol_)])
                have = {sw for sw in SWITCHES if any(pol and _setting_root(t, sw, fi) is not None for t, pol in fs)}
                k = f"{fi.fq}|live Sphinx environment `{short(val_, 30)}` given to document-written expressions"
                if have == set(SWITCHES):
                    rep.ok("C20.R6", k, fi.module.site(node_), "only while raw_enabled and file_insertion_enabled are both on")
                else:
                    missing = sorted(set(SWITCHES) - have)
                    rep.violation(
                        "C20.R6",
                        k,
                        fi.module.site(node_),
                        f"`{short(node_, 60)}` hands the live Sphinx environment to the sandboxed expression without a dominating truth test of {' and '.join(missing)}: "
                        "`{{ env.app.extensions[...].module.mocking.Path(f).read_text() }}` reads a file although file insertion is disabled, and the same object graph reaches exec(), "
                        "which can switch raw_enabled back on - the sandbox cannot police application objects, so both switches must be on",
                    )
    if n_env == 0:
        rep.listed("C20.R6", "live environment exposure", "myst_parser/mdit_to_docutils/base.py:0", "no template context entry holds the Sphinx environment")
    rep.expect_min("C20.R6", 1, "the substitution environment in render_substitution")


RULES = [r1_filter_postdominates, r2_no_late_raw, r3_file_read_dominance, r4_shared_settings_real_documents, r5_switches_are_read_only, r6_templates_sandboxed]


# ---------------------------------------------------------------------------
# mutants of the current tree


def _reindent(text: str, extra: str) -> str:
    lines = text.split("\n")
    return "\n".join([lines[0]] + [(extra + l if l.strip() else l) for l in lines[1:]])


def _filter_parts(fi: FunctionInfo, flt: ast.If) -> dict:
    """The pieces of a raw filter of today's shape, for the mutant generator (None where absent)."""
    inside = lambda n: flt.lineno <= getattr(n, "lineno", 0) <= flt.end_lineno  # noqa: E731
    loop = find_node(fi, lambda n: isinstance(n, ast.For) and inside(n) and "nodes.raw" in unparse(n.iter))
    outer = find_node(fi, lambda n: isinstance(n, ast.For) and inside(n) and isinstance(n.iter, (ast.Tuple, ast.List)) and loop is not None and any(x is loop for x in ast.walk(n)))
    v = loop.target.id if loop is not None and isinstance(loop.target, ast.Name) else None
    wst = find_node(fi, lambda n: isinstance(n, ast.Assign) and inside(n) and isinstance(n.value, ast.Call) and isinstance(n.value.func, ast.Attribute) and n.value.func.attr == "warning" and unparse(n.value.func.value).endswith("reporter"))
    ins = find_node(fi, lambda n: isinstance(n, ast.Expr) and inside(n) and isinstance(n.value, ast.Call) and isinstance(n.value.func, ast.Attribute) and n.value.func.attr in ("insert", "append") and wst is not None and unparse(n.value.args[-1]) == unparse(wst.targets[0]))
    rm = find_node(fi, lambda n: isinstance(n, ast.Expr) and inside(n) and isinstance(n.value, ast.Call) and v is not None and isinstance(n.value.func, ast.Attribute) and n.value.func.attr == "remove" and len(n.value.args) == 1 and unparse(n.value.args[0]) == v)
    rep_ = find_node(fi, lambda n: isinstance(n, ast.Expr) and inside(n) and isinstance(n.value, ast.Call) and v is not None and unparse(n.value.func) in (f"{v}.parent.replace", f"{v}.replace_self"))
    climb = find_node(fi, lambda n: isinstance(n, ast.While) and inside(n) and "TextElement" in unparse(n.test))
    return {"loop": loop, "outer": outer, "v": v, "wst": wst, "ins": ins, "rm": rm, "replace": rep_, "climb": climb}


def mutants(corpus: Corpus):
    out: list = []
    dm = corpus.mod("parsers.docutils_")
    base = corpus.mod("mdit_to_docutils.base")
    mk = corpus.mod("mocking")
    tr = corpus.mod("mdit_to_docutils.transforms")
    parse = dm.func("Parser.parse")
    flt = find_node(parse, lambda n: isinstance(n, ast.If) and _mentions_setting(n.test, "raw_enabled", parse))
    render_st = find_stmt(parse, lambda s: isinstance(s, ast.Expr) and isinstance(s.value, ast.Call) and unparse(s.value.func) == "parser.render")
    if flt is None or render_st is None:
        out.append(("c20-r1-*", "raw filter or render statement not found in Parser.parse"))
    else:
        ind = indent_of(parse, flt)
        # the render call may sit in a try/finally: edits around it are made at the level of the filter
        while parent(render_st) is not None and parent(render_st) is not parse.node and not (isinstance(parent(render_st), ast.stmt) and flt in getattr(parent(parent(render_st)) if False else parent(render_st), "body", [])):
            nxt = parent(render_st)
            if not isinstance(nxt, ast.stmt):
                break
            render_st = nxt
            if indent_of(parse, render_st) == ind:
                break
        # 1. filter switched off
        out.append(Mutant("c20-filter-dropped", "C20.R1", dm.rel, splice(dm.src, flt.test, "False"), expect="Parser.parse|raw filter after"))
        # 2. early return between render and filter
        seg = segment(dm.src, render_st)
        out.append(Mutant("c20-return-before-filter", "C20.R1", dm.rel, splice(dm.src, render_st, seg + f"\n{ind}if not document.children:\n{ind}    return"), expect="Parser.parse|raw filter after"))
        # 3. filter moved in front of the render call
        fseg = segment(dm.src, flt)
        src3 = splice(dm.src, flt, "pass")
        src3 = splice(src3, render_st, fseg + f"\n{ind}" + seg)
        out.append(Mutant("c20-filter-before-render", "C20.R1", dm.rel, src3, expect="Parser.parse|raw filter after"))
        # 3b. identity instead of truth test: raw_enabled = 0 slips through
        if isinstance(flt.test, ast.UnaryOp) and isinstance(flt.test.op, ast.Not):
            out.append(Mutant("c20-filter-identity-test", "C20.R1", dm.rel, splice(dm.src, flt.test, segment(dm.src, flt.test.operand) + " is False"), expect="raw filter|test"))
        # 3c. replacement that can be None: Element.replace(old, None) keeps the raw node
        wst = find_node(parse, lambda n: isinstance(n, ast.Assign) and isinstance(n.value, ast.Call) and isinstance(n.value.func, ast.Attribute) and n.value.func.attr == "warning" and unparse(n.value.func.value).endswith("reporter") and flt.lineno <= n.lineno <= flt.end_lineno)
        if wst is not None:
            wseg = segment(dm.src, wst.value)
            out.append(Mutant("c20-filter-replacement-suppressible", "C20.R1", dm.rel, splice(dm.src, wst.value, 'create_warning(document, "Raw content disabled.", MystWarnings.NOT_SUPPORTED)'), expect="replacement-not-none"))
            out.append(Mutant("c20-filter-replacement-conditional-none", "C20.R1", dm.rel, splice(dm.src, wst.value, wseg + " if document.settings.report_level <= 2 else None"), expect="replacement-not-none"))
            fp = _filter_parts(parse, flt)
            if fp["ins"] is not None and fp["rm"] is not None and fp["ins"].lineno < fp["rm"].lineno:
                i3 = indent_of(parse, fp["ins"])
                src3c = splice(dm.src, fp["rm"], "pass")
                src3c = splice(src3c, fp["ins"], f"if {unparse(wst.targets[0])} is not None:\n{i3}    " + segment(dm.src, fp["ins"]) + f"\n{i3}    " + segment(dm.src, fp["rm"]))
                src3c = splice(src3c, wst.value, 'create_warning(document, "Raw content disabled.", MystWarnings.NOT_SUPPORTED)')
                out.append(Mutant("c20-filter-replacement-guarded-without-fallback", "C20.R1", dm.rel, src3c, expect="replacement-not-none"))
            elif fp["replace"] is not None:
                rs3 = fp["replace"]
                src3c = splice(dm.src, rs3, f"if {unparse(wst.targets[0])} is not None:\n{indent_of(parse, rs3)}    " + segment(dm.src, rs3))
                src3c = splice(src3c, wst.value, 'create_warning(document, "Raw content disabled.", MystWarnings.NOT_SUPPORTED)')
                out.append(Mutant("c20-filter-replacement-guarded-without-fallback", "C20.R1", dm.rel, src3c, expect="replacement-not-none"))
        # 3d. the loop skips some raw nodes (by a local derived from the node / by something unrelated to the node)
        if wst is not None:
            wi = indent_of(parse, wst)
            lv_ = find_node(parse, lambda n: isinstance(n, ast.For) and "nodes.raw" in unparse(n.iter))
            if lv_ is not None:
                vn = lv_.target.id
                out.append(Mutant("c20-filter-skips-by-derived-text", "C20.R1", dm.rel, splice(dm.src, wst, f"text = {vn}.astext().strip()\n{wi}if text.startswith('<!--') and text.endswith('-->'):\n{wi}    continue\n{wi}" + segment(dm.src, wst)), expect="raw filter|every-node"))
                out.append(Mutant("c20-filter-skips-by-config", "C20.R1", dm.rel, splice(dm.src, wst, f"if config.gfm_only:\n{wi}    continue\n{wi}" + segment(dm.src, wst)), expect="raw filter|every-node"))
        # 3e. the message is created once and shared by all replaced nodes
        lp_ = find_node(parse, lambda n: isinstance(n, ast.For) and "nodes.raw" in unparse(n.iter))
        if wst is not None and lp_ is not None and lp_.lineno <= wst.lineno <= lp_.end_lineno:
            # build: <warning assignment>; <loop with the assignment replaced by pass>
            loop_src = segment(dm.src, lp_).replace(segment(dm.src, wst), "pass", 1)
            out.append(Mutant("c20-filter-shared-message-hoisted", "C20.R1", dm.rel, splice(dm.src, lp_, segment(dm.src, wst) + "\n" + indent_of(parse, lp_) + loop_src), expect="one-message-per-node"))
        # 3f. the message is created lazily once (`if warning is None: warning = ...`) and reused for later nodes
        fpm = _filter_parts(parse, flt)
        if wst is not None and (fpm["outer"] or fpm["loop"]) is not None:
            top = fpm["outer"] or fpm["loop"]
            wname = unparse(wst.targets[0])
            # two edits, later position first
            srcm = splice(dm.src, wst, f"if {wname} is None:\n{indent_of(parse, wst)}    " + segment(dm.src, wst))
            top_seg = segment(dm.src, top)
            srcm = srcm.replace(top_seg.split("\n", 1)[0], f"{wname} = None\n{indent_of(parse, top)}" + top_seg.split("\n", 1)[0], 1)
            out.append(Mutant("c20-filter-shared-message-memoised", "C20.R1", dm.rel, srcm, expect="one-message-per-node"))
        # 3g. all roots gathered into one list before the first node is processed (overlapping roots -> a node twice)
        fpg = _filter_parts(parse, flt)
        if fpg["outer"] is not None and fpg["loop"] is not None and isinstance(fpg["outer"].target, ast.Name):
            o_, l_ = fpg["outer"], fpg["loop"]
            inner_iter = l_.iter.args[0] if isinstance(l_.iter, ast.Call) and dotted(l_.iter.func) in ("list", "tuple") and l_.iter.args else l_.iter
            io, il = indent_of(parse, o_), indent_of(parse, l_)
            body_src = "\n".join(ln[len(il) - len(io):] if ln.startswith(il) else ln for ln in segment(dm.src, l_).split("\n")[1:])
            flat_src = (
                f"raw_nodes = [{unparse(l_.target)} for {o_.target.id} in {unparse(o_.iter)} for {unparse(l_.target)} in {unparse(inner_iter)}]\n"
                f"{io}for {unparse(l_.target)} in raw_nodes:\n" + body_src
            )
            out.append(Mutant("c20-filter-roots-gathered-up-front", "C20.R1", dm.rel, splice(dm.src, o_, flat_src), expect="overlapping-roots"))
            # 3h. roots that have a parent are skipped as "already covered by the document" (a discarded container is a parent too)
            if l_ in o_.body:
                out.append(Mutant("c20-filter-roots-with-parent-skipped", "C20.R1", dm.rel, splice(dm.src, l_, f"if {o_.target.id}.parent is not None:\n{il}    continue\n{il}" + segment(dm.src, l_)), expect="registry-roots-skipped"))
                out.append(Mutant("c20-filter-roots-with-truthy-parent-skipped", "C20.R1", dm.rel, splice(dm.src, l_, f"if not ({o_.target.id}.parent is None):\n{il}    continue\n{il}" + segment(dm.src, l_)), expect="registry-roots-skipped"))
            else:
                out.append(("c20-filter-roots-with-parent-skipped", "the raw loop is not a direct statement of the root sweep"))
        # 4. extra condition
        out.append(Mutant("c20-filter-extra-condition", "C20.R1", dm.rel, splice(dm.src, flt.test, segment(dm.src, flt.test) + " and not config.gfm_only"), expect="raw filter|test"))
        loop = find_node(parse, lambda n: isinstance(n, ast.For) and "nodes.raw" in unparse(n.iter))
        if loop is not None:
            # 5. only HTML raw is filtered / the node is dropped without a message
            fp = _filter_parts(parse, flt)
            vn_ = fp["v"]
            if wst is not None and vn_ is not None:
                wi5 = indent_of(parse, wst)
                out.append(Mutant("c20-filter-html-only", "C20.R1", dm.rel, splice(dm.src, wst, f"if {vn_}.get('format') != 'html':\n{wi5}    continue\n{wi5}" + segment(dm.src, wst)), expect="raw filter|every-node"))
            if fp["ins"] is not None and fp["rm"] is not None:
                out.append(Mutant("c20-filter-silent-removal", "C20.R1", dm.rel, splice(dm.src, fp["ins"], "pass"), expect="raw filter|reported"))
                # revert of 9bbd974: the message replaces the raw node in place (inside the title/paragraph)
                srcp = splice(dm.src, fp["rm"], "pass") if fp["rm"].lineno > fp["ins"].lineno else dm.src
                srcp = splice(srcp, fp["ins"], f"{vn_}.parent.replace({vn_}, {unparse(wst.targets[0])})")
                if fp["rm"].lineno < fp["ins"].lineno:
                    srcp = splice(srcp, fp["rm"], "pass")
                out.append(Mutant("c20-filter-message-replaces-inline-node-in-place", "C20.R1", dm.rel, srcp, expect="message-placement", canary=True))
            elif fp["replace"] is not None:
                out.append(Mutant("c20-filter-silent-removal", "C20.R1", dm.rel, splice(dm.src, fp["replace"], f"{vn_}.parent.remove({vn_})"), expect="raw filter|reported"))
            if fp["ins"] is not None and fp["rm"] is not None and fp["ins"].lineno < fp["rm"].lineno:
                srco = splice(dm.src, fp["rm"], segment(dm.src, fp["ins"]))
                srco = splice(srco, fp["ins"], segment(dm.src, fp["rm"]))
                out.append(Mutant("c20-filter-node-removed-before-message-inserted", "C20.R1", dm.rel, srco, expect="insert-before-remove"))
            if fp["climb"] is not None and isinstance(fp["climb"].test, ast.Call) and len(fp["climb"].test.args) == 2:
                cls_arg = fp["climb"].test.args[1]
                # revert of 17952b8 (climb only out of text elements) and a partial weakening (field_list kept, field dropped)
                out.append(Mutant("c20-filter-message-between-field-name-and-body", "C20.R1", dm.rel, splice(dm.src, cls_arg, "nodes.TextElement"), expect="message-placement"))
                out.append(Mutant("c20-filter-climb-leaves-field-list-but-not-field", "C20.R1", dm.rel, splice(dm.src, cls_arg, "nodes.TextElement | nodes.field_list"), expect="message-placement"))
            fn_if = find_node(parse, lambda n: isinstance(n, ast.If) and flt.lineno <= n.lineno <= flt.end_lineno and "field_name" in unparse(n.test))
            if fn_if is not None and fp["rm"] is None:
                fp["rm"] = find_node(parse, lambda n: isinstance(n, ast.Expr) and isinstance(n.value, ast.Call) and isinstance(n.value.func, ast.Attribute) and n.value.func.attr == "remove" and flt.lineno <= n.lineno <= flt.end_lineno)
            if fn_if is not None:
                # revert of 7f8dc63 and partial weakenings of the refill obligation
                out.append(Mutant("c20-filter-empty-field-name-left", "C20.R1", dm.rel, splice(dm.src, fn_if, "pass"), expect="field-name-kept-nonempty"))
                inst_ = find_node(parse, lambda n: isinstance(n, ast.Call) and dotted(n.func) == "isinstance" and fn_if.lineno <= n.lineno <= fn_if.end_lineno and "field_name" in unparse(n))
                if inst_ is not None and vn_ is not None:
                    out.append(Mutant("c20-filter-field-name-test-on-detached-node", "C20.R1", dm.rel, splice(dm.src, inst_.args[0], f"{vn_}.parent"), expect="field-name-kept-nonempty"))
                    out.append(Mutant("c20-filter-field-name-refill-only-for-docinfo-names", "C20.R1", dm.rel, splice(dm.src, fn_if.test, segment(dm.src, fn_if.test) + " and isinstance(parent.parent.parent.parent, nodes.document)"), expect="field-name-kept-nonempty"))
                rm_ = find_node(parse, lambda n: isinstance(n, ast.Expr) and isinstance(n.value, ast.Call) and isinstance(n.value.func, ast.Attribute) and n.value.func.attr == "remove" and flt.lineno <= n.lineno <= flt.end_lineno)
                if rm_ is not None and rm_.lineno < fn_if.lineno:
                    srcq = splice(dm.src, fn_if, segment(dm.src, rm_))
                    srcq = splice(srcq, rm_, segment(dm.src, fn_if))
                    out.append(Mutant("c20-filter-field-name-checked-before-removal", "C20.R1", dm.rel, srcq, expect="field-name-kept-nonempty"))
            if fp["climb"] is not None:
                out.append(Mutant("c20-filter-message-beside-node-without-climbing", "C20.R1", dm.rel, splice(dm.src, fp["climb"], "pass"), expect="message-placement"))
            # revert of d017ced: only the tree is swept, not the registered footnotes
            if fp["outer"] is not None:
                plain_ = [e_ for e_ in fp["outer"].iter.elts if not isinstance(e_, ast.Starred)]
                star_ = [e_ for e_ in fp["outer"].iter.elts if isinstance(e_, ast.Starred)]
                if plain_ and star_:
                    out.append(Mutant("c20-filter-sweeps-tree-only", "C20.R2", dm.rel, splice(dm.src, fp["outer"].iter, f"({unparse(plain_[0])},)"), expect="also sweeps document.footnotes", canary=True))
                    if len(star_) > 1:
                        keep_ = ", ".join(unparse(e_) for e_ in plain_ + star_[:-1])
                        out.append(Mutant("c20-filter-sweep-misses-one-registry", "C20.R2", dm.rel, splice(dm.src, fp["outer"].iter, f"({keep_})"), expect="also sweeps document." + unparse(star_[-1].value).rsplit(".", 1)[-1]))
            # 6. not the whole document
            it = loop.iter
            trav = find_node(parse, lambda n: isinstance(n, ast.Call) and isinstance(n.func, ast.Attribute) and n.func.attr in ("traverse", "findall") and n.args and unparse(n.args[0]) == "nodes.raw")
            if trav is not None:
                out.append(Mutant("c20-filter-no-descend", "C20.R1", dm.rel, splice(dm.src, trav, segment(dm.src, trav)[:-1] + ", descend=False)"), expect="raw filter|coverage"))
                if fp["outer"] is not None and plain_:
                    out.append(Mutant("c20-filter-first-section-only", "C20.R1", dm.rel, splice(dm.src, plain_[0], segment(dm.src, plain_[0]) + "[0]"), expect="raw filter|coverage"))
                else:
                    out.append(Mutant("c20-filter-first-section-only", "C20.R1", dm.rel, splice(dm.src, trav.func.value, segment(dm.src, trav.func.value) + "[0]"), expect="raw filter|coverage"))
            # 7. invisible report
            w = find_node(parse, lambda n: isinstance(n, ast.Attribute) and n.attr == "warning" and unparse(n.value).endswith("reporter") and n.lineno >= flt.lineno)
            if w is not None:
                out.append(Mutant("c20-filter-reports-info", "C20.R1", dm.rel, splice(dm.src, w, segment(dm.src, w.value) + ".info"), expect="raw filter|reported"))
        # R2: a raw node appended after the filter
        fin = find_stmt(parse, lambda s: isinstance(s, ast.Expr) and isinstance(s.value, ast.Call) and unparse(s.value.func) == "self.finish_parse")
        if fin is not None:
            out.append(Mutant("c20-raw-after-filter", "C20.R2", dm.rel, splice(dm.src, fin, f"document.append(nodes.raw('', '<!-- myst -->', format='html'))\n{ind}" + segment(dm.src, fin)), expect="after the filter"))
    # revert of fd0f586: the Sphinx front end loses its raw filter
    sm = corpus.mod("parsers.sphinx_")
    sparse = sm.func("MystParser.parse")
    sflt = find_node(sparse, lambda n: isinstance(n, ast.If) and _mentions_setting(n.test, "raw_enabled", sparse))
    if sflt is not None:
        out.append(Mutant("c20-sphinx-filter-reverted", "C20.R1", sm.rel, splice(sm.src, sflt, "pass"), expect="MystParser.parse|raw filter after", canary=True))
        sloop = find_node(sparse, lambda n: isinstance(n, ast.For) and "nodes.raw" in unparse(n.iter))
        sfp = _filter_parts(sparse, sflt)
        if sloop is not None and isinstance(sloop.iter, ast.Call) and dotted(sloop.iter.func) in ("list", "tuple") and sfp["rm"] is not None:
            out.append(Mutant("c20-sphinx-filter-lazy-removal", "C20.R1", sm.rel, splice(sm.src, sloop.iter, unparse(sloop.iter.args[0])), expect="lazy-iteration"))
        if sfp["ins"] is not None and sfp["rm"] is not None and sfp["wst"] is not None and sfp["rm"].lineno > sfp["ins"].lineno:
            srcs = splice(sm.src, sfp["rm"], "pass")
            srcs = splice(srcs, sfp["ins"], f"{sfp['v']}.parent.replace({sfp['v']}, {unparse(sfp['wst'].targets[0])})")
            out.append(Mutant("c20-sphinx-filter-message-replaces-inline-node-in-place", "C20.R1", sm.rel, srcs, expect="message-placement"))
        if sfp["outer"] is not None:
            splain = [e_ for e_ in sfp["outer"].iter.elts if not isinstance(e_, ast.Starred)]
            if splain and len(splain) < len(sfp["outer"].iter.elts):
                out.append(Mutant("c20-sphinx-filter-sweeps-tree-only", "C20.R2", sm.rel, splice(sm.src, sfp["outer"].iter, f"({unparse(splain[0])},)"), expect="also sweeps document.footnotes"))
        swst = find_node(sparse, lambda n: isinstance(n, ast.Assign) and isinstance(n.value, ast.Call) and isinstance(n.value.func, ast.Attribute) and n.value.func.attr == "warning" and unparse(n.value.func.value).endswith("reporter") and sflt.lineno <= n.lineno <= sflt.end_lineno)
        if swst is not None:
            out.append(Mutant("c20-sphinx-filter-replacement-suppressible", "C20.R1", sm.rel, splice(sm.src, swst.value, 'create_warning(document, "Raw content disabled.", MystWarnings.NOT_SUPPORTED, line=node.line)'), expect="replacement-not-none"))
            if sloop is not None and sloop.lineno <= swst.lineno <= sloop.end_lineno:
                sl_src = segment(sm.src, sloop).replace(segment(sm.src, swst), "pass", 1)
                out.append(Mutant("c20-sphinx-filter-shared-message-hoisted", "C20.R1", sm.rel, splice(sm.src, sloop, segment(sm.src, swst) + "\n" + indent_of(sparse, sloop) + sl_src), expect="one-message-per-node"))
            swi = indent_of(sparse, swst)
            sl_ = find_node(sparse, lambda n: isinstance(n, ast.For) and "nodes.raw" in unparse(n.iter))
            if sl_ is not None:
                out.append(Mutant("c20-sphinx-filter-skips-other-formats", "C20.R1", sm.rel, splice(sm.src, swst, f"if 'html' not in {sl_.target.id}.get('format', '').split():\n{swi}    continue\n{swi}" + segment(sm.src, swst)), expect="raw filter|every-node"))
    else:
        out.append(("c20-sphinx-filter-reverted", "no raw filter in MystParser.parse"))
    if flt is not None:
        dloop = find_node(parse, lambda n: isinstance(n, ast.For) and "nodes.raw" in unparse(n.iter))
        dfp = _filter_parts(parse, flt)
        if dloop is not None and isinstance(dloop.iter, ast.Call) and dotted(dloop.iter.func) in ("list", "tuple") and dfp["rm"] is not None:
            out.append(Mutant("c20-filter-lazy-findall-with-removal", "C20.R1", dm.rel, splice(dm.src, dloop.iter, unparse(dloop.iter.args[0])), expect="lazy-iteration"))
        elif dloop is not None and dfp["replace"] is not None:
            v = dloop.target.id
            src = splice(dm.src, dfp["replace"], f"{v}.parent.remove({v})\n{indent_of(parse, dfp['replace'])}document.append(warning)")
            src = splice(src, dloop.iter, unparse(dloop.iter).replace(".traverse(", ".findall("))
            out.append(Mutant("c20-filter-lazy-findall-with-removal", "C20.R1", dm.rel, src, expect="lazy-iteration"))
        fin2 = find_stmt(parse, lambda s: isinstance(s, ast.Expr) and isinstance(s.value, ast.Call) and unparse(s.value.func) == "self.finish_parse")
        if fin2 is not None:
            i2 = indent_of(parse, fin2)
            out.append(Mutant("c20-second-render-after-filter", "C20.R2", dm.rel, splice(dm.src, fin2, f"if config.html_meta:\n{i2}    parser.renderer.nested_render_text(str(config.html_meta), 0)\n{i2}" + segment(dm.src, fin2)), expect="Parser.parse"))
    # R2: a raw subclass / alias built by a transform; an event handler building raw
    cf0 = tr.func("CollectFootnotes.apply")
    tcall0 = find_node(cf0, lambda n: isinstance(n, ast.Call) and unparse(n.func) == "nodes.transition")
    if tcall0 is not None:
        out.append(Mutant("c20-transform-builds-raw-subclass", "C20.R2", tr.rel, splice(tr.src, tcall0, "FootnoteRule('', '<hr>', format='html')") + "\n\nclass FootnoteRule(nodes.raw):\n    pass\n", expect="CollectFootnotes.apply"))
        out.append(Mutant("c20-transform-builds-raw-alias", "C20.R2", tr.rel, splice(tr.src, tcall0, "_Raw('', '<hr>', format='html')") + "\n\n_Raw = nodes.raw\n", expect="CollectFootnotes.apply"))
    mj = corpus.mod("sphinx_ext.mathjax")
    om = mj.func("override_mathjax")
    first_om = next((st for st in om.node.body if not (isinstance(st, ast.Expr) and isinstance(st.value, ast.Constant))), None)
    if first_om is not None:
        out.append(Mutant("c20-event-handler-builds-raw", "C20.R2", mj.rel, splice(mj.src, first_om, "app.myst_mathjax_banner = nodes.raw('', '<script></script>', format='html')\n" + indent_of(om, first_om) + segment(mj.src, first_om)), expect="override_mathjax"))
    # R2: a transform builds raw HTML
    cf = tr.func("CollectFootnotes.apply")
    tcall = find_node(cf, lambda n: isinstance(n, ast.Call) and unparse(n.func) == "nodes.transition")
    if tcall is not None:
        out.append(Mutant("c20-transform-builds-raw", "C20.R2", tr.rel, splice(tr.src, tcall, "nodes.raw('', '<hr class=\"footnotes\">', format='html')"), expect="CollectFootnotes.apply"))
    else:
        out.append(("c20-transform-builds-raw", "no nodes.transition() in CollectFootnotes.apply"))
    ra = tr.func("ResolveAnchorIds.apply")
    icall = find_node(ra, lambda n: isinstance(n, ast.Call) and unparse(n.func) == "nodes.inline")
    if icall is not None:
        out.append(Mutant("c20-anchor-transform-builds-raw", "C20.R2", tr.rel, splice(tr.src, icall, "nodes.raw('', '<span></span>', format='html')"), expect="ResolveAnchorIds.apply"))
    # R3
    run = mk.func("MockIncludeDirective.run")
    g = find_node(run, lambda n: isinstance(n, ast.If) and _mentions_setting(n.test, "file_insertion_enabled", run))
    if g is not None:
        out.append(Mutant("c20-insertion-guard-dropped", "C20.R3", mk.rel, splice(mk.src, g.test, "False"), expect="read_text", canary=True))
        gi = indent_of(run, g)
        # guard placed after the read
        rd = find_stmt(run, lambda s: isinstance(s, ast.Try) and "read_text" in unparse(s))
        if rd is not None:
            gseg = segment(mk.src, g)
            src = splice(mk.src, rd, segment(mk.src, rd) + f"\n{gi}" + gseg)
            src = splice(src, g, "pass")
            out.append(Mutant("c20-insertion-guard-after-read", "C20.R3", mk.rel, src, expect="read_text"))
        lv = find_node(run, lambda n: isinstance(n, ast.Constant) and n.value == 2 and isinstance(parent(n), ast.Call) and unparse(parent(n).func) == "DirectiveError" and g.lineno <= n.lineno <= g.end_lineno)
        if lv is not None:
            out.append(Mutant("c20-refusal-level-severe", "C20.R3", mk.rel, splice(mk.src, lv, "4"), expect="refusal"))
            out.append(Mutant("c20-refusal-level-info", "C20.R3", mk.rel, splice(mk.src, lv, "1"), expect="refusal"))
        if isinstance(g.test, ast.UnaryOp) and isinstance(g.test.op, ast.Not):
            out.append(Mutant("c20-insertion-guard-identity-test", "C20.R3", mk.rel, splice(mk.src, g.test, segment(mk.src, g.test.operand) + " is False"), expect="refusal"))
        # guard weakened: only refuses outside Sphinx
        out.append(Mutant("c20-insertion-guard-weakened", "C20.R3", mk.rel, splice(mk.src, g.test, segment(mk.src, g.test) + " and self.renderer.sphinx_env is None"), expect="read_text"))
    else:
        out.append(("c20-insertion-guard-*", "no file_insertion_enabled test in MockIncludeDirective.run"))
    # a second reader reachable from directives
    fm = corpus.mod("sphinx_ext.directives").func("FigureMarkdown.run")
    first = fm.node.body[0] if not (isinstance(fm.node.body[0], ast.Expr) and isinstance(fm.node.body[0].value, ast.Constant)) else fm.node.body[1]
    out.append(Mutant("c20-directive-reads-file", "C20.R3", fm.module.rel, splice(fm.module.src, first, "caption_text = open(self.arguments[0] + '.caption').read() if self.options.get('caption-file') else None\n" + indent_of(fm, first) + segment(fm.module.src, first)), expect="FigureMarkdown.run"))
    # R3: a second directive mock that reads a file without consulting the switch
    rdv0 = base.func("DocutilsRenderer.run_directive")
    inst_if = find_node(rdv0, lambda n: isinstance(n, ast.If) and any(isinstance(x, ast.Assign) and unparse(x.targets[0]) == "directive_instance" for x in n.body))
    if inst_if is not None:
        ii = indent_of(rdv0, inst_if)
        bsrc = splice(base.src, inst_if, f"if name == 'table-file':\n{ii}    directive_instance = MockTableFile(self, parsed.arguments, parsed.options)\n{ii}el" + segment(base.src, inst_if))
        bsrc = bsrc.replace("    MockIncludeDirective,\n", "    MockIncludeDirective,\n    MockTableFile,\n", 1) if "    MockIncludeDirective,\n" in bsrc else "from myst_parser.mocking import MockTableFile\n" + bsrc
        msrc = mk.src + "\n\nclass MockTableFile:\n    def __init__(self, renderer, arguments, options):\n        self.renderer = renderer\n        self.document = renderer.document\n        self.arguments = arguments\n\n    def run(self):\n        rows = Path(self.arguments[0]).read_text().splitlines()\n        return [nodes.literal_block('\\n'.join(rows), '\\n'.join(rows))]\n"
        out.append(Mutant("c20-second-directive-mock-reads-file", "C20.R3", mk.rel, msrc, expect="MockTableFile.run", more={base.rel: bsrc}))
    else:
        out.append(("c20-second-directive-mock-reads-file", "directive instantiation branch not found in run_directive"))
    # R5: the package switches a security setting on
    rs_f = base.func("DocutilsRenderer.render_s")
    first_s = next((st for st in rs_f.node.body if not (isinstance(st, ast.Expr) and isinstance(st.value, ast.Constant))), None)
    if first_s is not None:
        out.append(Mutant("c20-raw-switched-on-for-own-nodes", "C20.R5", base.rel, splice(base.src, first_s, "self.document.settings.raw_enabled = True\n" + indent_of(rs_f, first_s) + segment(base.src, first_s)), expect="sets raw_enabled"))
    dd = find_node(dm.func("to_html5_demo"), lambda n: isinstance(n, ast.Dict) and any(is_const(k, "output_encoding") for k in n.keys))
    if dd is not None:
        out.append(Mutant("c20-demo-overrides-file-insertion", "C20.R5", dm.rel, splice(dm.src, dd, segment(dm.src, dd).rstrip()[:-1] + '    "file_insertion_enabled": True,\n    }'), expect="sets file_insertion_enabled"))
    inc_run = mk.func("MockIncludeDirective.run")
    g5 = find_node(inc_run, lambda n: isinstance(n, ast.If) and _mentions_setting(n.test, "file_insertion_enabled", inc_run))
    if g5 is not None:
        out.append(Mutant("c20-include-mock-setattr-switch", "C20.R5", mk.rel, splice(mk.src, g5, 'setattr(self.document.settings, "file_insertion_enabled", True)\n' + indent_of(inc_run, g5) + segment(mk.src, g5)), expect="sets file_insertion_enabled"))
    # R6: revert of e6abf42 - substitutions evaluated without a sandbox
    rsub = base.func("DocutilsRenderer.render_substitution")
    envc = find_node(rsub, lambda n: isinstance(n, ast.Call) and (dotted(n.func) or "").endswith("SandboxedEnvironment"))
    if envc is not None:
        out.append(Mutant("c20-substitution-environment-not-sandboxed", "C20.R6", base.rel, splice(base.src, envc.func, "jinja2.Environment"), expect="render_substitution", canary=True))
        out.append(Mutant("c20-substitution-native-environment", "C20.R6", base.rel, splice(base.src, envc.func, "jinja2.nativetypes.NativeEnvironment"), expect="render_substitution"))
        cls_weak = "\n\nclass _SubstitutionEnvironment(jinja2.sandbox.SandboxedEnvironment):\n    def is_safe_attribute(self, obj, attr, value):\n        return not attr.startswith(\"__\")\n"
        cls_or = "\n\nclass _SubstitutionEnvironment(jinja2.sandbox.SandboxedEnvironment):\n    def is_safe_attribute(self, obj, attr, value):\n        return super().is_safe_attribute(obj, attr, value) or attr in (\"_fields\", \"_asdict\", \"mro\")\n"
        cls_call = "\n\nclass _SubstitutionEnvironment(jinja2.sandbox.SandboxedEnvironment):\n    def is_safe_callable(self, obj):\n        return callable(obj)\n"
        for mid, txt in (("c20-sandbox-subclass-replaces-attribute-check", cls_weak), ("c20-sandbox-subclass-widens-attribute-check", cls_or), ("c20-sandbox-subclass-replaces-callable-check", cls_call)):
            out.append(Mutant(mid, "C20.R6", base.rel, splice(base.src, envc.func, "_SubstitutionEnvironment") + txt, expect="sandbox hook replaced"))
    else:
        out.append(("c20-substitution-environment-not-sandboxed", "no SandboxedEnvironment(...) in render_substitution"))
    # R6: one module-level environment shared by all parses (judged like a local one; its globals outlive the guard)
    if envc is not None:
        rnd = find_node(rsub, lambda n: isinstance(n, ast.Call) and isinstance(n.func, ast.Attribute) and n.func.attr == "render" and n.args and unparse(n.args[0]) == "variable_context")
        env_asg = parent(envc) if isinstance(parent(envc), ast.Assign) else None
        if rnd is not None and env_asg is not None and isinstance(env_asg.targets[0], ast.Name):
            evar = env_asg.targets[0].id
            srcs_ = splice(base.src, rnd, segment(base.src, rnd.func) + "()")
            srcs_ = splice(srcs_, env_asg, f"{evar} = SUBSTITUTION_ENV\n{indent_of(rsub, env_asg)}{evar}.globals.update(variable_context)")
            shared_def = "\n\nSUBSTITUTION_ENV = " + segment(base.src, envc) + "\n"
            out.append(Mutant("c20-substitution-shared-environment-keeps-env-global", "C20.R6", base.rel, srcs_ + shared_def, expect="shared template environment"))
            srcp_ = splice(base.src, env_asg, f"{evar} = SUBSTITUTION_ENV")
            out.append(Mutant("c20-substitution-shared-environment-not-sandboxed", "C20.R6", base.rel, srcp_ + "\n\nSUBSTITUTION_ENV = jinja2.Environment(undefined=jinja2.StrictUndefined)\n", expect="SUBSTITUTION_ENV"))
    # R6: revert / partial weakenings of a0ca114 - the live Sphinx environment handed to document-written expressions
    env_if = find_node(rsub, lambda n: isinstance(n, ast.If) and any(isinstance(x, ast.Assign) and isinstance(x.targets[0], ast.Subscript) and "sphinx_env" in unparse(x.value) for x in n.body))
    if env_if is not None:
        leaves_ = env_if.test.values if isinstance(env_if.test, ast.BoolOp) and isinstance(env_if.test.op, ast.And) else [env_if.test]
        plain_ = [x for x in leaves_ if not _mentions_setting(x, "raw_enabled", rsub) and not _mentions_setting(x, "file_insertion_enabled", rsub)]
        raw_ = [x for x in leaves_ if _mentions_setting(x, "raw_enabled", rsub)]
        fil_ = [x for x in leaves_ if _mentions_setting(x, "file_insertion_enabled", rsub)]
        if plain_ and raw_ and fil_:
            j = lambda xs: " and ".join(segment(base.src, x) for x in xs)  # noqa: E731
            out.append(Mutant("c20-substitution-env-always-exposed", "C20.R6", base.rel, splice(base.src, env_if.test, j(plain_)), expect="live Sphinx environment"))
            out.append(Mutant("c20-substitution-env-exposed-when-only-raw-disabled", "C20.R6", base.rel, splice(base.src, env_if.test, j(plain_ + fil_)), expect="live Sphinx environment"))
            out.append(Mutant("c20-substitution-env-exposed-when-only-file-insertion-disabled", "C20.R6", base.rel, splice(base.src, env_if.test, j(plain_ + raw_)), expect="live Sphinx environment"))
            out.append(Mutant("c20-substitution-env-exposed-unless-both-disabled", "C20.R6", base.rel, splice(base.src, env_if.test, j(plain_) + " and (" + " or ".join(segment(base.src, x) for x in fil_ + raw_) + ")"), expect="live Sphinx environment"))
        else:
            out.append(("c20-substitution-env-*", "guard of the env exposure not in the expected conjunctive form"))
    else:
        out.append(("c20-substitution-env-*", "no guarded `variable_context[...] = self.sphinx_env` in render_substitution"))
    # R4
    rr = base.func("DocutilsRenderer.render_restructuredtext")
    st = find_stmt(rr, lambda s: isinstance(s, ast.Assign) and unparse(s.targets[0]).endswith(".settings"))
    if st is not None:
        out.append(Mutant("c20-evalrst-settings-not-shared", "C20.R4", base.rel, splice(base.src, st, "pass"), expect="render_restructuredtext", canary=False))
        out.append(Mutant("c20-evalrst-settings-copied-defaults", "C20.R4", base.rel, splice(base.src, st.value, "make_document().settings"), expect="render_restructuredtext"))
        doc_name = unparse(st.targets[0].value)
        out.append(Mutant("c20-evalrst-settings-setdefault-merge", "C20.R4", base.rel, splice(base.src, st, f"for key, value in vars(self.document.settings).items():\n{indent_of(rr, st)}    {doc_name}.settings.setdefault(key, value)"), expect="render_restructuredtext"))
        pst = find_stmt(rr, lambda s: isinstance(s, ast.Expr) and isinstance(s.value, ast.Call) and unparse(s.value.func).endswith(".parse"))
        if pst is not None and pst.lineno > st.lineno:
            src = splice(base.src, pst, segment(base.src, pst) + "\n" + indent_of(rr, pst) + segment(base.src, st))
            src = splice(src, st, "pass")
            out.append(Mutant("c20-evalrst-settings-shared-too-late", "C20.R4", base.rel, src, expect="render_restructuredtext"))
        # the settings travel through a parameter of the document helper instead, which lets the parser defaults win
        mk_call = find_node(rr, lambda n: isinstance(n, ast.Call) and not n.args and not n.keywords and isinstance(n.func, ast.Name) and n.func.id in base.functions)
        helper = base.functions.get(mk_call.func.id) if mk_call is not None else None
        ret = find_stmt(helper, lambda s: isinstance(s, ast.Return) and isinstance(s.value, ast.Call) and kwarg(s.value, "settings") is not None) if helper is not None else None
        hargs = helper.node.args if helper is not None else None
        if ret is not None and hargs.args and not hargs.kwonlyargs and hargs.vararg is None and hargs.kwarg is None:
            last_param = hargs.defaults[-1] if hargs.defaults else hargs.args[-1]
            sv = kwarg(ret.value, "settings")
            sseg = segment(base.src, sv)

            def multi(edits):
                src_ = base.src
                for node_, text_ in sorted(edits, key=lambda x: (x[0].lineno, x[0].col_offset), reverse=True):
                    src_ = splice(src_, node_, text_)
                return src_

            common_edits = [
                (st, "pass"),
                (mk_call, f"{mk_call.func.id}(outer_settings=self.document.settings)"),
                (last_param, segment(base.src, last_param) + ", outer_settings=None"),
            ]
            out.append(Mutant("c20-evalrst-settings-through-helper-defaults-win-merge", "C20.R4", base.rel, multi(common_edits + [(sv, f"({sseg} if outer_settings is None else type(outer_settings)({{**vars(outer_settings), **vars({sseg})}}))")]), expect="render_restructuredtext"))
            out.append(Mutant("c20-evalrst-settings-through-helper-ignored", "C20.R4", base.rel, multi(common_edits), expect="render_restructuredtext"))
        else:
            out.append(("c20-evalrst-settings-through-helper-*", "render_restructuredtext does not make its document with a no-argument call of a helper in base.py that returns `<ctor>(..., settings=...)`"))
    else:
        out.append(("c20-evalrst-settings-*", "no `<doc>.settings = ...` in render_restructuredtext"))
    for cname in ("MockState", "MockInliner"):
        init = mk.func(f"{cname}.__init__")
        a = find_stmt(init, lambda s: isinstance(s, ast.Assign) and unparse(s.targets[0]) == "self.document")
        if a is not None:
            out.append(Mutant(f"c20-{cname.lower()}-fresh-document", "C20.R4", mk.rel, splice(mk.src, a.value, 'new_document(renderer.document["source"])'), expect=f"{cname}.document"))
    rdv = base.func("DocutilsRenderer.run_directive")
    c = find_node(rdv, lambda n: isinstance(n, ast.Call) and unparse(n.func) == "MockState")
    if c is not None and c.args:
        out.append(Mutant("c20-mockstate-around-other-renderer", "C20.R4", base.rel, splice(base.src, c.args[0], "type(self)(self.md)"), expect="MockState(renderer"))
    return out
