"""C20 - docutils security settings (raw_enabled / file_insertion_enabled) are honoured."""

from __future__ import annotations

import ast

from ..callgraph import External, Special, Unresolved, get_callgraph
from ..corpus import (
    AnchorMissing,
    Corpus,
    FunctionInfo,
    Unsupported,
    arg_or_kw,
    calls_in,
    dotted,
    is_const,
    kwarg,
    parent,
    segment,
    short,
    splice,
    unparse,
    walk_local,
)
from ..flow import EXIT, facts, get_cfg
from ..mutant import Mutant
from ..report import Report
from .common import find_node, find_stmt, indent_of, rule

PROP = "C20"
READY = False
TECHNIQUE = (
    "CFG post-dominance of the raw filter over the render call in every front end, call-graph reachability of "
    "nodes.raw constructions and of file-system reads, guard dominance in the include mock, alias checks on settings/document"
)

META = {
    "explanation": (
        "R1: every front-end entry (a function that builds a markdown-it parser with a docutils-document renderer and calls "
        "its render) is followed, on every path to its normal exit, by the raw filter: a branch taken exactly when the "
        "document's raw_enabled setting is false, looping over all nodes.raw of the whole document and replacing each, "
        "unconditionally, by a reporter warning. R2: no function reachable from a transform / post-transform, or from what "
        "the entry calls after the filter, constructs nodes.raw; every construction in the package is in a render-phase "
        "function or unreachable. R3: in the include mock every call that reads the file system (directly or through "
        "callees) is dominated by the file_insertion_enabled test whose failing branch raises DirectiveError at warning "
        "level; every other file-system read in the package is unreachable from run_directive (search stopped where "
        "markdown text re-enters the renderer; the inventory loader, fed from global-only configuration, is listed). R4: the nested rST parse of eval-rst runs on a document whose "
        "settings object is the outer document's; every mock handed to directives/roles exposes the renderer's real document."
    ),
    "not_decided": (
        "that third-party directives/roles honour the settings they are shown (docutils' raw/include/csv-table and Sphinx's "
        "literalinclude do, by reading); that every raw node built during rendering is attached to the tree when the filter runs; "
        "the writer's own file access (image embedding consults file_insertion_enabled itself)"
    ),
    "trusted_base": [
        "CPython ast",
        "call graph special edges (DESIGN E3)",
        "catalogue of file-system read calls (open, io.open, codecs.open, urlopen, FileInput, .read_text/.read_bytes/.open/.read/.readlines)",
    ],
    "assumptions": [
        "docutils/Sphinx directives check document.settings themselves when given the real document",
        "reporter calls return a system_message node (halt_level above WARNING)",
    ],
}

RAW_CLASS = "docutils.nodes.raw"

# ---------------------------------------------------------------------------
# small helpers


def _block_def(name: str, at: ast.AST) -> ast.expr | None:
    """Value of the closest straight-line assignment ``name = ...`` that precedes ``at`` in one of
    its enclosing statement lists (a definite reaching definition)."""
    node = at
    p = parent(node)
    while p is not None and not isinstance(p, (ast.FunctionDef, ast.AsyncFunctionDef, ast.Lambda, ast.ClassDef, ast.Module)):
        for fld in ("body", "orelse", "finalbody"):
            blk = getattr(p, fld, None)
            if isinstance(blk, list) and node in blk:
                for st in reversed(blk[: blk.index(node)]):
                    if isinstance(st, ast.Assign) and any(isinstance(t, ast.Name) and t.id == name for t in st.targets):
                        return st.value
                    if any(isinstance(x, ast.Name) and x.id == name and isinstance(x.ctx, ast.Store) for x in ast.walk(st)):
                        return None  # written in a nested construct: not straight-line
        node = p
        p = parent(p)
    if p is not None and isinstance(p, (ast.FunctionDef, ast.AsyncFunctionDef)) and node in p.body:
        for st in reversed(p.body[: p.body.index(node)]):
            if isinstance(st, ast.Assign) and any(isinstance(t, ast.Name) and t.id == name for t in st.targets):
                return st.value
            if any(isinstance(x, ast.Name) and x.id == name and isinstance(x.ctx, ast.Store) for x in ast.walk(st)):
                return None
    return None


def _deref(e: ast.expr | None, fi: FunctionInfo, depth: int = 0) -> ast.expr | None:
    """Follow a local name to its value: the closest preceding straight-line assignment, or the
    only assignment in the function (aliases such as ``settings = document.settings``)."""
    if e is None or depth > 4 or not isinstance(e, ast.Name):
        return e
    if parent(e) is not None:
        v = _block_def(e.id, e)
        if v is not None:
            return _deref(v, fi, depth + 1)
    f = fi
    while f is not None:
        if e.id in f.params:
            return e
        f = f.parent_func
    defs = [
        n
        for n in fi.local_nodes()
        if isinstance(n, (ast.Assign, ast.AnnAssign))
        and any(isinstance(t, ast.Name) and t.id == e.id for t in (n.targets if isinstance(n, ast.Assign) else [n.target]))
    ]
    other = [
        n
        for n in fi.local_nodes()
        if isinstance(n, ast.Name) and n.id == e.id and isinstance(n.ctx, ast.Store) and not isinstance(parent(n), (ast.Assign, ast.AnnAssign))
    ]
    if len(defs) == 1 and not other and defs[0].value is not None:
        return _deref(defs[0].value, fi, depth + 1)
    return e


def _setting_root(e: ast.expr | None, name: str, fi: FunctionInfo) -> ast.expr | None:
    """``R`` when ``e`` reads ``R.settings.<name>`` (attribute or getattr form, through local aliases)."""
    e = _deref(e, fi)
    if isinstance(e, ast.Call) and dotted(e.func) == "getattr" and len(e.args) >= 2 and is_const(e.args[1], name):
        s = _deref(e.args[0], fi)
        if isinstance(s, ast.Attribute) and s.attr == "settings":
            return _deref(s.value, fi)
        return None
    if isinstance(e, ast.Attribute) and e.attr == name:
        s = _deref(e.value, fi)
        if isinstance(s, ast.Attribute) and s.attr == "settings":
            return _deref(s.value, fi)
    return None


def _mentions_setting(e: ast.expr, name: str, fi: FunctionInfo) -> bool:
    for n in ast.walk(e):
        if isinstance(n, (ast.Call, ast.Attribute, ast.Name)) and _setting_root(n, name, fi) is not None:
            return True
    return False


def _is_raw_ctor(call: ast.Call, fi: FunctionInfo) -> bool:
    d = dotted(call.func)
    return bool(d) and fi.module.resolve(d) == RAW_CLASS


def _is_raw_class(e: ast.expr | None, fi: FunctionInfo) -> bool:
    d = dotted(e) if e is not None else None
    return bool(d) and fi.module.resolve(d) == RAW_CLASS


def _own_calls(fi: FunctionInfo) -> list[ast.Call]:
    return calls_in(fi.node.body) if fi.is_lambda else calls_in(fi.node, into_lambdas=False)


def _renderer_classes(corpus: Corpus) -> set[str]:
    base = corpus.cls("mdit_to_docutils.base:DocutilsRenderer")
    return {base.fq} | {c.fq for c in corpus.subclasses(base)}


# ---------------------------------------------------------------------------
# front ends: who renders markdown into a docutils document


class FrontEnd:
    def __init__(self, fi: FunctionInfo, create_call: ast.Call, render_call: ast.Call, renderer):
        self.fi = fi
        self.create_call = create_call
        self.render_call = render_call
        self.renderer = renderer  # ClassInfo


def front_ends(corpus: Corpus) -> tuple[list[FrontEnd], list[tuple[FunctionInfo, ast.Call, str]]]:
    """Functions that call create_md_parser(config, <docutils renderer class>) and then ``.render`` on the result."""

    def compute():
        rcls = _renderer_classes(corpus)
        fes: list[FrontEnd] = []
        others: list[tuple[FunctionInfo, ast.Call, str]] = []
        for fi in corpus.all_functions():
            if fi.is_lambda:
                continue
            for call in _own_calls(fi):
                full = fi.module.resolve(dotted(call.func) or "")
                if not full.endswith("parsers.mdit.create_md_parser"):
                    continue
                r = arg_or_kw(call, 1, "renderer")
                rname = fi.module.resolve(dotted(r) or "") if r is not None else ""
                ci = corpus.find_class(rname) if rname else None
                if ci is None or ci.fq not in rcls:
                    others.append((fi, call, unparse(r) if r is not None else "?"))
                    continue
                p = parent(call)
                if not (isinstance(p, ast.Assign) and len(p.targets) == 1 and isinstance(p.targets[0], ast.Name)):
                    raise Unsupported(f"{fi.module.site(call)}: result of create_md_parser is not bound to a local name")
                var = p.targets[0].id
                renders = [
                    c
                    for c in _own_calls(fi)
                    if isinstance(c.func, ast.Attribute) and c.func.attr == "render" and isinstance(c.func.value, ast.Name) and c.func.value.id == var
                ]
                if len(renders) != 1:
                    raise Unsupported(f"{fi.module.site(call)}: expected exactly one render call on `{var}`, found {len(renders)}")
                fes.append(FrontEnd(fi, call, renders[0], ci))
        return fes, others

    return corpus.cache("c20-front-ends", compute)


# ---------------------------------------------------------------------------
# R1 the raw filter


class Filter:
    """One ``if <raw disabled>: for n in <doc>.findall(nodes.raw): replace`` construct, analysed."""

    def __init__(self, fi: FunctionInfo, ifnode: ast.If):
        self.fi = fi
        self.ifnode = ifnode
        self.root: str | None = None
        self.problems: list[tuple[str, str, ast.AST]] = []  # (aspect, message, node)
        self.oks: list[tuple[str, str, ast.AST]] = []
        self.loop: ast.For | None = None
        self._analyse()

    # aspects: test, coverage, every-node, reported
    def _analyse(self) -> None:
        fi, ifn = self.fi, self.ifnode
        cfg = get_cfg(fi)
        atoms = facts(ifn.test, True)
        setting = [(e, pol) for e, pol in atoms if _setting_root(e, "raw_enabled", fi) is not None]
        rest = [(e, pol) for e, pol in atoms if _setting_root(e, "raw_enabled", fi) is None]
        if len(setting) != 1:
            raise Unsupported(f"{fi.module.site(ifn)}: raw_enabled test `{short(ifn.test, 70)}` is not a conjunction with one raw_enabled atom")
        e, pol = setting[0]
        root = _setting_root(e, "raw_enabled", fi)
        self.root = unparse(root)
        if pol:
            # `if raw_enabled: ... else: <filter>`
            if rest:
                raise Unsupported(f"{fi.module.site(ifn)}: raw_enabled test with extra conditions in positive form")
            branch, edge = ifn.orelse, ("F", ifn)
        else:
            branch, edge = ifn.body, ("T", ifn)
        if rest:
            self.problems.append(("test", "the raw filter is additionally conditioned on " + " and ".join(("" if p else "not ") + short(x, 50) for x, p in rest) + ": with raw disabled and that condition false every raw node survives", ifn))
        else:
            self.oks.append(("test", f"taken exactly when {self.root}.settings.raw_enabled is false", ifn))
        # the document the settings were read from must be a parameter or the renderer's document
        ok_root = (isinstance(root, ast.Name) and root.id in fi.params and root.id != "self") or self.root == "self.document"
        if not ok_root:
            raise Unsupported(f"{fi.module.site(ifn)}: raw_enabled is read from `{self.root}`, which is neither a parameter nor self.document")
        # the loop: any `for` that only runs when raw is disabled (nested in the branch, or after an early return)
        loops = [n for n in fi.local_nodes() if isinstance(n, ast.For) and n in cfg.succ and cfg.dominates(edge, n)]
        cands = []
        for lp in loops:
            info = self._raw_iter(lp)
            if info is not None:
                cands.append((lp, info))
        if not cands:
            trav = [lp for lp in loops if "traverse" in unparse(lp.iter) or "findall" in unparse(lp.iter)]
            if trav:
                self.problems.append(("coverage", f"the filter loop `for ... in {short(trav[0].iter, 60)}` does not enumerate docutils.nodes.raw", trav[0]))
                return
            raise Unsupported(f"{fi.module.site(ifn)}: no loop over nodes.raw found under the raw_enabled test (rewritten in an unknown idiom)")
        if len(cands) > 1:
            raise Unsupported(f"{fi.module.site(ifn)}: several loops over nodes.raw under the raw_enabled test")
        lp, (recv, call) = cands[0]
        self.loop = lp
        if not cfg.postdominates(lp, edge):
            raise Unsupported(f"{fi.module.site(lp)}: the raw loop is not reached on every path of the raw-disabled branch")
        cov_problem = None
        if unparse(recv) != self.root:
            cov_problem = f"the filter enumerates raw nodes of `{short(recv, 40)}`, not of the whole document `{self.root}`"
        for kw in call.keywords:
            if kw.arg == "descend" and is_const(kw.value, False):
                cov_problem = "the filter passes descend=False: nested raw nodes are not visited"
            elif kw.arg in ("siblings", "ascend") and not is_const(kw.value, False):
                cov_problem = f"the filter passes {kw.arg}=...: it no longer walks the document subtree only"
            elif kw.arg not in ("condition", "include_self", "descend", "siblings", "ascend"):
                raise Unsupported(f"{fi.module.site(call)}: unknown argument {kw.arg} in the raw traversal")
        if len(call.args) > 1:
            raise Unsupported(f"{fi.module.site(call)}: positional traversal flags not understood")
        if cov_problem:
            self.problems.append(("coverage", cov_problem, lp))
        else:
            self.oks.append(("coverage", f"loops over every nodes.raw below {self.root}", lp))
        self._loop_body(lp, cfg)

    def _raw_iter(self, lp: ast.For):
        """(receiver, traversal call) when the loop iterates over all nodes.raw of a receiver."""
        fi = self.fi
        it = _deref(lp.iter, fi)
        while isinstance(it, ast.Call) and dotted(it.func) in ("list", "tuple", "reversed") and len(it.args) == 1:
            it = _deref(it.args[0], fi)
        if not isinstance(it, ast.Call):
            return None
        cls = arg_or_kw(it, 0, "condition")
        if not _is_raw_class(cls, fi):
            return None
        f = it.func
        if isinstance(f, ast.Attribute) and f.attr in ("traverse", "findall"):
            return _deref(f.value, fi), it
        if isinstance(f, ast.Call) and (dotted(f.func) or "").split(".")[-1] == "findall" and len(f.args) == 1:
            return _deref(f.args[0], fi), it  # _compat.findall(node)(cls)
        return None

    def _loop_body(self, lp: ast.For, cfg) -> None:
        fi = self.fi
        if not isinstance(lp.target, ast.Name):
            raise Unsupported(f"{fi.module.site(lp)}: raw loop target is not a simple name")
        v = lp.target.id
        for n in walk_local(lp):
            if isinstance(n, (ast.Break, ast.Return)):
                raise Unsupported(f"{fi.module.site(n)}: break/return inside the raw filter loop")
        repl = None  # (call, kind, replacement expr | None)
        for c in calls_in(lp, into_lambdas=False):
            f = c.func
            if not isinstance(f, ast.Attribute):
                continue
            recv = unparse(f.value)
            if f.attr == "replace" and recv == f"{v}.parent" and len(c.args) == 2 and unparse(c.args[0]) == v:
                repl = (c, "replace", c.args[1])
            elif f.attr == "replace_self" and recv == v and len(c.args) == 1:
                repl = (c, "replace", c.args[0])
            elif f.attr == "remove" and recv == f"{v}.parent" and len(c.args) == 1 and unparse(c.args[0]) == v:
                repl = (c, "remove", None)
        if repl is None:
            raise Unsupported(f"{fi.module.site(lp)}: the raw filter loop neither replaces nor removes `{v}` in a recognised form")
        call, kind, new = repl
        st = cfg.stmt_of(call)
        if cfg.paths_avoiding(("T", lp), lp, lambda n: n is st):
            # some iteration skips the replacement: is the skip decided by the node's content?
            content_tests = []
            for t, _pol in cfg.guards(st):
                if not (lp.lineno <= getattr(t, "lineno", 0) <= lp.end_lineno):
                    continue
                for x in ast.walk(t):
                    if isinstance(x, ast.Name) and x.id == v:
                        px = parent(x)
                        if isinstance(px, (ast.Subscript, ast.Compare)) or (isinstance(px, ast.Attribute) and px.attr != "parent"):
                            content_tests.append(t)
            if content_tests:
                self.problems.append(("every-node", f"only raw nodes with `{short(content_tests[0], 60)}` are replaced; the others survive with raw disabled", content_tests[0]))
            else:
                raise Unsupported(f"{fi.module.site(call)}: the replacement of `{v}` is conditional in a way the rule does not understand")
        else:
            self.oks.append(("every-node", f"each raw node is {'replaced' if kind == 'replace' else 'removed'} on every iteration", call))
        # what replaces it
        if kind == "remove":
            self.problems.append(("reported", "raw nodes are removed silently: the refusal must be reported as a warning", call))
            return
        w = _deref(new, fi)
        if isinstance(w, ast.Call) and isinstance(w.func, ast.Attribute) and unparse(w.func.value).endswith("reporter"):
            level = w.func.attr
            if level == "warning":
                self.oks.append(("reported", f"replacement is {short(w, 60)}", w))
            elif level in ("info", "debug", "error", "severe", "critical"):
                self.problems.append(("reported", f"the refusal is reported with reporter.{level}, not as a warning" + (" (below the default report level: nothing is shown)" if level in ("info", "debug") else ""), w))
            elif level == "system_message" and w.args and isinstance(w.args[0], ast.Constant):
                if w.args[0].value == 2:
                    self.oks.append(("reported", f"replacement is {short(w, 60)}", w))
                else:
                    self.problems.append(("reported", f"the refusal is reported at level {w.args[0].value}, not as a warning (2)", w))
            else:
                raise Unsupported(f"{fi.module.site(w)}: reporter call `{short(w, 50)}` not understood")
        else:
            raise Unsupported(f"{fi.module.site(call)}: the replacement `{short(new, 50)}` is not a reporter message")


def _filters_in(fi: FunctionInfo) -> list[ast.If]:
    if fi.is_lambda:
        return []
    return [n for n in fi.local_nodes() if isinstance(n, ast.If) and _mentions_setting(n.test, "raw_enabled", fi)]


def _unconditional_filter(fi: FunctionInfo, after=None) -> ast.If | None:
    """A raw filter in ``fi`` that lies on every path from ``after`` (default ENTRY) to the normal exit."""
    cfg = get_cfg(fi)
    start = after if after is not None else "ENTRY"
    for ifn in _filters_in(fi):
        if ifn is not start and cfg.postdominates(ifn, start):
            return ifn
    return None


def locate_filter(corpus: Corpus, fe: FrontEnd):
    """Where the filter that covers this front end lives: (function, if-node, how) or (None, reason, partial-if)."""
    g = get_callgraph(corpus)
    fi = fe.fi
    cfg = get_cfg(fi)
    s = cfg.stmt_of(fe.render_call)
    if s not in cfg.pdom():
        raise Unsupported(f"{fi.module.site(s)}: the render call cannot reach the normal exit")
    ifn = _unconditional_filter(fi, s)
    if ifn is not None:
        return fi, ifn, "in the entry, after the render call"
    # one level of helper: a statement after the render call, on every path, calling a function that always filters
    for st in cfg.nodes:
        if not isinstance(st, ast.stmt) or st is s or isinstance(st, (ast.If, ast.For, ast.While, ast.Try, ast.With, ast.FunctionDef)):
            continue
        if not cfg.postdominates(st, s):
            continue
        for c in calls_in(st, into_lambdas=False):
            for t in g.flat_targets(g.resolve_call(c, fi)):
                if t.is_lambda or t.fq == fi.fq:
                    continue
                inner = _unconditional_filter(t)
                if inner is not None:
                    return t, inner, f"in {t.qualname}, called after the render call"
    # inside the renderer: after the tokens were rendered, in render() or a helper it always calls
    rm = corpus.lookup_method(fe.renderer, "render")
    if rm is not None:
        rcfg = get_cfg(rm)
        rts = [c for c in _own_calls(rm) if isinstance(c.func, ast.Attribute) and c.func.attr == "_render_tokens"]
        if len(rts) == 1:
            rs = rcfg.stmt_of(rts[0])
            inner = _unconditional_filter(rm, rs)
            if inner is not None:
                return rm, inner, f"in {rm.qualname}, after _render_tokens"
            for st in rcfg.nodes:
                if isinstance(st, ast.stmt) and st is not rs and not isinstance(st, (ast.If, ast.For, ast.While, ast.Try, ast.With)) and rcfg.postdominates(st, rs):
                    for c in calls_in(st, into_lambdas=False):
                        for t in g.flat_targets(g.resolve_call(c, rm)):
                            if t.is_lambda or t.fq == rm.fq or t.name.startswith("render_"):
                                continue
                            inner = _unconditional_filter(t)
                            if inner is not None:
                                return t, inner, f"in {t.qualname}, called by {rm.qualname} after _render_tokens"
    partial = _filters_in(fi)
    if partial:
        return None, "a raw_enabled test exists in the entry but some path from the render call to the normal exit does not pass it", partial[0]
    return None, "no raw_enabled filter follows the render call (neither in the entry, in a helper it always calls afterwards, nor at the end of the renderer's render())", None


@rule("C20.R1")
def r1_filter_postdominates(corpus: Corpus, rep: Report, tier: str):
    rep.rule("C20.R1", "in every front end the raw filter lies on every path from the render call to the normal exit, is taken exactly when raw_enabled is false, covers all nodes.raw of the whole document and replaces each by a warning")
    fes, others = front_ends(corpus)
    if not fes:
        raise AnchorMissing("no function builds a markdown-it parser with a docutils renderer (create_md_parser(config, DocutilsRenderer))")
    for fi, call, r in others:
        rep.listed("C20.R1", f"{fi.fq}|create_md_parser(..., {r})", fi.module.site(call), "renderer does not build a docutils document: no docutils settings apply")
    analysed: dict[tuple[str, int], Filter] = {}
    for fe in fes:
        fi = fe.fi
        rep.saw_function(fi.fq)
        rep.saw_call(fi.module.site(fe.render_call))
        k = f"{fi.fq}|raw filter after {short(fe.render_call, 40)}"
        where, ifn, how = locate_filter(corpus, fe)
        if where is None:
            reason, partial = ifn, how
            site = fi.module.site(partial if partial is not None else fe.render_call)
            rep.violation(
                "C20.R1",
                k,
                site,
                f"{fi.qualname} renders the source with {fe.renderer.name} and returns without filtering raw nodes: {reason}. "
                "With raw_enabled false, HTML blocks/inline HTML, hard line breaks and strikethrough stay in the document as raw nodes",
            )
            continue
        rep.ok("C20.R1", k, where.module.site(ifn), how)
        ident = (where.fq, ifn.lineno)
        if ident in analysed:
            continue
        flt = Filter(where, ifn)
        analysed[ident] = flt
        rep.saw_function(where.fq)
        # the document filtered must be the one rendered into
        if where.fq == fi.fq:
            _check_same_document(rep, fe, flt)
        for aspect, msg, node in flt.oks:
            rep.ok("C20.R1", f"{where.fq}|raw filter|{aspect}", where.module.site(node), msg)
        for aspect, msg, node in flt.problems:
            rep.violation("C20.R1", f"{where.fq}|raw filter|{aspect}", where.module.site(node), msg)
    rep.expect_min("C20.R1", 2, "front-end entries (docutils and Sphinx parsers)")


def _check_same_document(rep: Report, fe: FrontEnd, flt: Filter) -> None:
    """The filtered document is the one handed to the renderer (parser.options['document'] = <doc>)."""
    fi = fe.fi
    var = fe.render_call.func.value.id  # type: ignore[union-attr]
    given = None
    for n in fi.local_nodes():
        if isinstance(n, ast.Assign) and len(n.targets) == 1:
            t = n.targets[0]
            if isinstance(t, ast.Subscript) and unparse(t.value) == f"{var}.options" and is_const(t.slice, "document"):
                given = n
    k = f"{fi.fq}|raw filter|same document as rendered"
    if given is None:
        raise Unsupported(f"{fi.site()}: no `{var}.options['document'] = ...` store found")
    if unparse(_deref(given.value, fi)) == flt.root:
        rep.ok("C20.R1", k, fi.module.site(given), f"{var}.options['document'] is {flt.root}")
    else:
        rep.violation("C20.R1", k, fi.module.site(given), f"the renderer writes into `{short(given.value, 40)}` but the raw filter walks `{flt.root}`")


# ---------------------------------------------------------------------------
# R2 no raw node is constructed after the filter


def _transform_entries(corpus: Corpus) -> tuple[list[tuple[FunctionInfo, str]], list[tuple[FunctionInfo, str]]]:
    """apply()/run() of every transform class the package registers (get_transforms(), app.add_*transform());
    transform classes the package defines but never registers are returned separately (evidence only)."""
    out: dict[str, tuple[FunctionInfo, str]] = {}
    unregistered: dict[str, tuple[FunctionInfo, str]] = {}

    def add_class(ci, why, into):
        for name in ("apply", "run"):
            m = ci.methods.get(name)
            if m is not None:
                into.setdefault(m.fq, (m, why))

    for fi in corpus.all_functions():
        if fi.is_lambda:
            continue
        if fi.name == "get_transforms":
            for n in fi.local_nodes():
                if isinstance(n, ast.List):
                    for e in n.elts:
                        ci = corpus.find_class(fi.module.resolve(dotted(e) or ""))
                        if ci is not None:
                            add_class(ci, f"listed in {fi.qualname}", out)
        for c in _own_calls(fi):
            if isinstance(c.func, ast.Attribute) and c.func.attr in ("add_transform", "add_post_transform") and c.args:
                ci = corpus.find_class(fi.module.resolve(dotted(c.args[0]) or ""))
                if ci is not None:
                    add_class(ci, f"registered by {fi.qualname}", out)
    for ci in corpus.all_classes():
        ext = corpus.external_bases(ci)
        if any(b.rsplit(".", 1)[-1].endswith(("Transform", "ReferencesResolver")) for b in ext):
            tmp: dict[str, tuple[FunctionInfo, str]] = {}
            add_class(ci, "transform class (base " + ", ".join(b.rsplit(".", 1)[-1] for b in ext) + ") that the package never registers", tmp)
            for fq, v in tmp.items():
                if fq not in out:
                    unregistered[fq] = v
    return list(out.values()), list(unregistered.values())


def _raw_constructions(corpus: Corpus) -> list[tuple[FunctionInfo, ast.Call]]:
    out = []
    for fi in corpus.all_functions():
        for c in _own_calls(fi):
            if _is_raw_ctor(c, fi):
                out.append((fi, c))
    # module / class level (not inside any function)
    return out


@rule("C20.R2")
def r2_no_late_raw(corpus: Corpus, rep: Report, tier: str):
    rep.rule("C20.R2", "nothing reachable after the raw filter (transforms, post-transforms, calls after the filter) constructs nodes.raw; every construction is in a render-phase function or unreachable")
    g = get_callgraph(corpus)
    fes, _ = front_ends(corpus)
    ctors = _raw_constructions(corpus)
    by_func: dict[str, list[ast.Call]] = {}
    for fi, c in ctors:
        by_func.setdefault(fi.fq, []).append(c)
    # (a) late entries
    late, unregistered = _transform_entries(corpus)
    for ent, why in unregistered:
        rep.listed("C20.R2", f"{ent.fq}|transform entry", ent.site(), why)
    if len(late) < 4:
        rep.error("C20.R2", f"expected the footnote/anchor transforms, found {len(late)} transform entry point(s)")
    tail_stmts: list[tuple[FrontEnd, ast.stmt]] = []
    for fe in fes:
        fi = fe.fi
        cfg = get_cfg(fi)
        s = cfg.stmt_of(fe.render_call)
        flt = _unconditional_filter(fi, s)
        start = flt if flt is not None else s
        for st in cfg.reachable_from(start):
            if isinstance(st, ast.stmt) and st is not start and st is not s:
                tail_stmts.append((fe, st))
    for fe, st in tail_stmts:
        fi = fe.fi
        own = [st] if not isinstance(st, (ast.If, ast.For, ast.While, ast.Try, ast.With)) else _headers(st)
        for part in own:
            for c in calls_in(part, into_lambdas=False):
                if _is_raw_ctor(c, fi):
                    rep.violation("C20.R2", f"{fi.fq}|constructs nodes.raw after the filter|{short(c, 60)}", fi.module.site(c), f"{fi.qualname} builds `{short(c, 60)}` after the raw filter has run: the node reaches the writer even with raw disabled")
                for t in g.flat_targets(g.resolve_call(c, fi)):
                    late.append((t, f"called by {fi.qualname} after the filter"))
    seen_entries = set()
    for ent, why in late:
        if ent.fq in seen_entries:
            continue
        seen_entries.add(ent.fq)
        reach = g.reachable([ent])
        rep.saw_function(ent.fq)
        bad = [fq for fq in reach if fq in by_func]
        if not bad:
            rep.ok("C20.R2", f"{ent.fq}|no nodes.raw constructed downstream", ent.site(), f"{why}; {len(reach)} reachable function(s)")
        for fq in bad:
            f = corpus.func(fq.replace("myst_parser.", "", 1))
            for c in by_func[fq]:
                rep.violation(
                    "C20.R2",
                    f"{ent.fq}|reaches {fq}|{short(c, 60)}",
                    f.module.site(c),
                    f"`{short(c, 60)}` in {f.qualname} is reachable from {ent.qualname} ({why}), which runs after the raw filter: the node is never filtered",
                    reach[fq],
                )
    # (b) every construction is in the render phase (before the filter) or unreachable
    render_reach: dict[str, list[str]] = {}
    for fe in fes:
        rm = corpus.lookup_method(fe.renderer, "render")
        if rm is None:
            raise AnchorMissing(f"{fe.renderer.fq}.render")
        for fq, chain in g.reachable([rm]).items():
            render_reach.setdefault(fq, chain)
    n_render = 0
    for fi, c in ctors:
        k = f"{fi.fq}|{short(c, 70)}"
        if fi.fq in render_reach:
            n_render += 1
            rep.ok("C20.R2", k, fi.module.site(c), "render-phase construction: built before the filter runs")
        else:
            owner_reach = g.reachable([e for e, _ in late])
            if fi.fq in owner_reach:
                continue  # already reported above
            rep.listed("C20.R2", k, fi.module.site(c), "not reachable from any front end, transform or directive")
    if n_render < 3:
        rep.error("C20.R2", f"expected the render-phase constructions of nodes.raw (hard break, strikethrough, HTML), found {n_render}")
    rep.expect_min("C20.R2", 8, "late entry points (>= 4 transforms) plus render-phase constructions (>= 4)")


def _headers(st: ast.stmt) -> list[ast.AST]:
    if isinstance(st, (ast.If, ast.While)):
        return [st.test]
    if isinstance(st, ast.For):
        return [st.iter]
    if isinstance(st, ast.With):
        return [i.context_expr for i in st.items]
    return []


# ---------------------------------------------------------------------------
# R3 file reads are dominated by the file_insertion_enabled test

READ_FUNCS = {
    "builtins.open": "open()",
    "open": "open()",
    "io.open": "io.open()",
    "codecs.open": "codecs.open()",
    "urllib.request.urlopen": "urlopen()",
    "docutils.io.FileInput": "docutils FileInput",
    "docutils.utils.relative_path": None,  # not a read
}
READ_METHODS = {"read_text", "read_bytes", "open", "read", "readlines"}
# calls that touch paths without reading file content (DESIGN C20.R3), listed in evidence
NON_READING = {"relfn2path", "note_included", "note_dependency", "joinpath", "absolute", "relpath", "normpath"}

# readers outside the include mock that directives can reach: one reason each, shape re-verified
TABLED_READERS = {
    "myst_parser.inventory:fetch_inventory": "loads an inventory named in the *global* configuration (myst_inventories); the path never comes from the document; reached from `inv:` links, not from a directive",
    "myst_parser.inventory:InventoryFileReader.read_buffer": "reads from the stream fetch_inventory opened",
}


def _read_calls(corpus: Corpus) -> list[tuple[FunctionInfo, ast.Call, str]]:
    def compute():
        g = get_callgraph(corpus)
        out = []
        for fi in corpus.all_functions():
            for c in _own_calls(fi):
                f = c.func
                d = dotted(f)
                full = fi.module.resolve(d) if d else ""
                what = None
                if isinstance(f, ast.Name):
                    shadow = any(f.id in x.params for x in _chain(fi))
                    if not shadow and (READ_FUNCS.get(full) or (full == f.id and f.id == "open")):
                        what = READ_FUNCS.get(full) or "open()"
                elif isinstance(f, ast.Attribute):
                    if READ_FUNCS.get(full):
                        what = READ_FUNCS[full]
                    elif f.attr in READ_METHODS:
                        ts = g.resolve_call(c, fi)
                        if not any(isinstance(t, (FunctionInfo, Special)) for t in ts):
                            # `.read()`/.open() on a non-package receiver; `re`-like module functions excluded
                            if not (d and d.split(".")[0] in fi.module.imports and f.attr not in ("open",)):
                                what = f".{f.attr}()"
                if what:
                    out.append((fi, c, what))
        return out

    return corpus.cache("c20-read-calls", compute)


def _chain(fi: FunctionInfo):
    while fi is not None:
        yield fi
        fi = fi.parent_func


def _all_callers_guarded(corpus: Corpus, f: FunctionInfo, depth: int = 2) -> bool:
    """Every call site of ``f`` in the package executes only when file insertion is known to be enabled."""
    g = get_callgraph(corpus)
    callers = g.callers().get(f.fq, [])
    if not callers:
        return False
    for cfi, call in callers:
        if cfi.is_lambda:
            return False
        _check_guard_forms(cfi)
        st = get_cfg(cfi).stmt_of(call)
        if _insertion_guard_facts(corpus, cfi, st):
            continue
        if depth > 0 and _all_callers_guarded(corpus, cfi, depth - 1):
            continue
        return False
    return True


def _refusal_if(fi: FunctionInfo, ifn: ast.If) -> ast.expr | None:
    """The setting read when ``ifn`` is `if not <file_insertion_enabled>: ...raise`, else None."""
    atoms = facts(ifn.test, True)
    if len(atoms) == 1 and not atoms[0][1] and _setting_root(atoms[0][0], "file_insertion_enabled", fi) is not None:
        if ifn.body and isinstance(ifn.body[-1], ast.Raise):
            return atoms[0][0]
    return None


def _leaves(test: ast.expr) -> list[ast.expr]:
    if isinstance(test, ast.UnaryOp) and isinstance(test.op, ast.Not):
        return _leaves(test.operand)
    if isinstance(test, ast.BoolOp):
        return [x for v in test.values for x in _leaves(v)]
    return [test]


def _check_guard_forms(fi: FunctionInfo) -> None:
    """Every test that involves file_insertion_enabled must be built from direct reads of the setting
    (`not X`, and/or of atoms); a comparison or wrapped read is outside the understood subset."""
    for n in fi.local_nodes():
        if isinstance(n, (ast.If, ast.While, ast.IfExp, ast.Assert)) and _mentions_setting(n.test, "file_insertion_enabled", fi):
            for atom in _leaves(n.test):
                if _mentions_setting(atom, "file_insertion_enabled", fi) and _setting_root(atom, "file_insertion_enabled", fi) is None:
                    raise Unsupported(f"{fi.module.site(n)}: file_insertion_enabled test `{short(n.test, 60)}` is not a plain truth test of the setting")


def _insertion_guard_facts(corpus: Corpus, fi: FunctionInfo, st) -> list[str]:
    """Reasons why file insertion is known to be enabled whenever ``st`` executes: a dominating truth
    fact on the setting, or a dominating call of a helper that always raises when it is disabled."""
    cfg = get_cfg(fi)
    out = [short(t, 60) for t, pol in cfg.guards(st) if pol and _setting_root(t, "file_insertion_enabled", fi) is not None]
    if out:
        return out
    g = get_callgraph(corpus)
    for d in cfg.dom().get(st, set()):
        if not isinstance(d, ast.stmt) or d is st or isinstance(d, (ast.If, ast.For, ast.While, ast.Try, ast.With, ast.FunctionDef, ast.ClassDef)):
            continue
        for c in calls_in(d, into_lambdas=False):
            for t in g.flat_targets(g.resolve_call(c, fi)):
                if t.is_lambda or t.fq == fi.fq:
                    continue
                _check_guard_forms(t)
                tcfg = get_cfg(t)
                for ifn in t.local_nodes():
                    if isinstance(ifn, ast.If) and _refusal_if(t, ifn) is not None and ("F", ifn) in tcfg.pdom().get("ENTRY", set()):
                        out.append(f"{t.qualname}() raises unless file insertion is enabled")
    return out


def _judge_refusal(rep: Report, fi: FunctionInfo, ifn: ast.If) -> bool:
    """Judge one `if not <file_insertion_enabled>:` refusal; True when it is a warning-level refusal."""
    atoms = facts(ifn.test, True)
    if len(atoms) != 1 or _setting_root(atoms[0][0], "file_insertion_enabled", fi) is None or atoms[0][1]:
        return False  # a weaker/other test establishes nothing: the reads below are then judged unguarded
    root = unparse(_setting_root(atoms[0][0], "file_insertion_enabled", fi))
    k = f"{fi.fq}|refusal when file insertion is disabled"
    last = ifn.body[-1] if ifn.body else None
    if isinstance(last, ast.Return):
        msgs = [c for c in calls_in(last, into_lambdas=False) if isinstance(c.func, ast.Attribute) and unparse(c.func.value).endswith("reporter")]
        if len(msgs) == 1 and msgs[0].func.attr == "warning":  # type: ignore[union-attr]
            rep.ok("C20.R3", k, fi.module.site(last), f"returns {short(msgs[0], 60)}")
            return True
        raise Unsupported(f"{fi.module.site(last)}: refusal returns `{short(last, 50)}`: not a single reporter.warning message")
    if not isinstance(last, ast.Raise) or last.exc is None:
        rep.violation("C20.R3", k, fi.module.site(ifn), "the file_insertion_enabled test does not leave the directive (no raise/return): execution continues to the file read")
        return False
    exc = last.exc
    cls = fi.module.resolve(dotted(exc.func) or "") if isinstance(exc, ast.Call) else ""
    if not cls.endswith("DirectiveError"):
        if isinstance(exc, ast.Call) and isinstance(exc.func, ast.Attribute) and exc.func.attr == "warning" and unparse(exc.func.value) == "self":
            rep.ok("C20.R3", k, fi.module.site(last), f"raise {short(exc, 60)} (docutils Directive.warning)")
            return True
        raise Unsupported(f"{fi.module.site(last)}: refusal raises `{short(exc, 50)}`, not DirectiveError")
    lvl = arg_or_kw(exc, 0, "level")
    if not (isinstance(lvl, ast.Constant) and isinstance(lvl.value, int)):
        raise Unsupported(f"{fi.module.site(last)}: DirectiveError level `{short(lvl, 30) if lvl is not None else '?'}` is not an integer literal")
    if root not in ("self.document", "self.renderer.document", "self.state.document"):
        raise Unsupported(f"{fi.module.site(ifn)}: file_insertion_enabled is read from `{root}`")
    if lvl.value == 2:
        rep.ok("C20.R3", k, fi.module.site(last), f"raise DirectiveError(2 = WARNING, ...) on `not {root}.settings.file_insertion_enabled`")
        return True
    names = {0: "DEBUG", 1: "INFO (below the default report level: nothing is shown)", 3: "ERROR", 4: "SEVERE (at the default halt level: the whole parse aborts)"}
    rep.violation("C20.R3", k, fi.module.site(last), f"the refusal is raised at level {lvl.value} = {names.get(lvl.value, '?')}; the property requires a warning (2) and normal processing of the rest")
    return False


@rule("C20.R3")
def r3_file_read_dominance(corpus: Corpus, rep: Report, tier: str):
    rep.rule("C20.R3", "in the include mock the file_insertion_enabled test (refusing with a warning-level DirectiveError) dominates every call that can read a file; no other file-system read is reachable from run_directive without re-entering the renderer")
    g = get_callgraph(corpus)
    run = corpus.func("mocking:MockIncludeDirective.run")
    rd = corpus.func("mdit_to_docutils.base:DocutilsRenderer.run_directive")
    rep.saw_function(run.fq)
    reads = _read_calls(corpus)
    reader_funcs = {fi.fq for fi, _, _ in reads}
    cfg = get_cfg(run)
    _check_guard_forms(run)
    # (a) the refusal itself: in run() or in a helper run() calls directly
    holders = [run]
    for c in _own_calls(run):
        for t in g.resolve_call(c, run):
            if isinstance(t, FunctionInfo) and not t.is_lambda and t.fq != run.fq and t not in holders:
                if any(isinstance(n, ast.If) and _mentions_setting(n.test, "file_insertion_enabled", t) for n in t.local_nodes()):
                    _check_guard_forms(t)
                    holders.append(t)
    guards = []
    refusal_ok = False
    for h in holders:
        for ifn in h.local_nodes():
            if isinstance(ifn, ast.If) and _mentions_setting(ifn.test, "file_insertion_enabled", h):
                guards.append(ifn)
                if _judge_refusal(rep, h, ifn):
                    refusal_ok = True
    # (b) every statement of run() that can read a file is guarded
    n_events = 0
    direct = {id(c) for fi, c, _ in reads if fi.fq == run.fq}
    reach_cache: dict[str, bool] = {}

    def reaches_reader(t: FunctionInfo) -> str | None:
        if t.fq not in reach_cache:
            r = g.reachable([t])
            hit = [fq for fq in r if fq in reader_funcs and fq != run.fq] or [fq for fq in r if fq in reader_funcs]
            reach_cache[t.fq] = hit[0] if hit else None  # type: ignore[assignment]
        return reach_cache[t.fq]  # type: ignore[return-value]

    for c in _own_calls(run):
        why = None
        if id(c) in direct:
            why = "reads the file system"
        else:
            for t in g.flat_targets(g.resolve_call(c, run)):
                if t.fq == run.fq:
                    continue
                hit = reaches_reader(t)
                if hit:
                    why = f"can reach the reader {hit.split(':')[1]}"
                    break
        if why is None:
            if isinstance(c.func, ast.Attribute) and c.func.attr in NON_READING:
                rep.listed("C20.R3", f"{run.fq}|{short(c, 60)}", run.module.site(c), "path bookkeeping, does not read file content")
            continue
        n_events += 1
        st = cfg.stmt_of(c)
        k = f"{run.fq}|{short(c.func, 50)}() guarded by file_insertion_enabled"
        if _insertion_guard_facts(corpus, run, st):
            rep.ok("C20.R3", k, run.module.site(c), why)
        else:
            rep.violation("C20.R3", k, run.module.site(c), f"`{short(c, 60)}` {why} and is not dominated by the file_insertion_enabled test: the include directive touches the disk although file insertion is disabled")
        rep.saw_call(run.module.site(c))
    helper_reads = [c for c in _own_calls(run) if any(isinstance(t, FunctionInfo) and t.fq in reader_funcs and t.fq != run.fq for t in g.resolve_call(c, run))]
    if not direct and not helper_reads:
        rep.error("C20.R3", "MockIncludeDirective.run contains no recognised file read (moved or rewritten in an unknown idiom)")
    if not guards:
        pass  # every read above is then a violation; nothing more to say
    elif not refusal_ok and not any(i.rule == "C20.R3" and i.status == "violation" for i in rep.items):
        rep.error("C20.R3", "a file_insertion_enabled test exists in MockIncludeDirective.run but none has the recognised refusal form")
    # (c) other readers
    # what a directive does itself: the search stops where markdown text re-enters the renderer
    reach_rd = g.reachable([rd], stop=lambda f: f.name == "nested_render_text")
    for fi, c, what in reads:
        if fi.fq == run.fq:
            continue
        k = f"{fi.fq}|{short(c, 60)}"
        site = fi.module.site(c)
        owner = fi
        while owner.parent_func is not None:
            owner = owner.parent_func
        if fi.fq not in reach_rd:
            rep.listed("C20.R3", k, site, f"{what}: not reachable from run_directive (search stops where text re-enters the renderer)" + (f"; {TABLED_READERS[owner.fq]}" if owner.fq in TABLED_READERS else ""))
        elif owner.fq in TABLED_READERS:
            if _tabled_shape_ok(corpus, g):
                rep.assumed("C20.R3", k, site, TABLED_READERS[owner.fq])
            else:
                rep.violation("C20.R3", k, site, f"{what} in {fi.qualname}: the inventory loader is no longer fed from global-only configuration alone, so a document can name the file it reads", reach_rd.get(fi.fq, []))
        else:
            if (_check_guard_forms(fi) or _insertion_guard_facts(corpus, fi, get_cfg(fi).stmt_of(c))) if not fi.is_lambda else False:
                rep.ok("C20.R3", k, site, f"{what} behind its own file_insertion_enabled test")
            elif not fi.is_lambda and _all_callers_guarded(corpus, fi):
                rep.ok("C20.R3", k, site, f"{what}: every call site of {fi.qualname} is behind a file_insertion_enabled test")
            else:
                rep.violation("C20.R3", k, site, f"{what} in {fi.qualname} is reachable from run_directive and consults no file_insertion_enabled test: a directive can read a file although file insertion is disabled", reach_rd[fi.fq])
    rep.expect_min("C20.R3", 3, "the refusal, the read_text call and the nested render of the included text")


def _tabled_shape_ok(corpus: Corpus, g) -> bool:
    """inventories is a global-only field and fetch_inventory's only render-path caller iterates md_config.inventories."""

    def compute():
        ci = corpus.cls("config.main:MdParserConfig")
        ok_field = False
        for st in ci.node.body:
            if isinstance(st, ast.AnnAssign) and isinstance(st.target, ast.Name) and st.target.id == "inventories" and isinstance(st.value, ast.Call):
                md = kwarg(st.value, "metadata")
                if isinstance(md, ast.Dict):
                    for kk, vv in zip(md.keys, md.values):
                        if is_const(kk, "global_only") and is_const(vv, True):
                            ok_field = True
        fetch = corpus.func("inventory:fetch_inventory")
        callers = g.callers().get(fetch.fq, [])
        ok_callers = True
        for fi, call in callers:
            if fi.module.name.endswith(".inventory"):
                continue  # the CLI
            loops = [a for a in _ancestors_local(call) if isinstance(a, ast.For)]
            if not any("md_config.inventories" in unparse(lp.iter) for lp in loops):
                ok_callers = False
        return ok_field and ok_callers and bool(callers)

    return corpus.cache("c20-tabled-shape", compute)


def _ancestors_local(n: ast.AST):
    p = parent(n)
    while p is not None and not isinstance(p, (ast.FunctionDef, ast.AsyncFunctionDef, ast.Lambda)):
        yield p
        p = parent(p)


# ---------------------------------------------------------------------------
# R4 settings are shared, documents are real

DOC_CTORS = ("make_document", "new_document", "document")


@rule("C20.R4")
def r4_shared_settings_real_documents(corpus: Corpus, rep: Report, tier: str):
    rep.rule("C20.R4", "the nested rST parse runs on a document carrying the outer document's settings object; every mock exposes the renderer's real document")
    g = get_callgraph(corpus)
    # (a) eval-rst
    rr = corpus.func("mdit_to_docutils.base:DocutilsRenderer.render_restructuredtext")
    rep.saw_function(rr.fq)
    cfg = get_cfg(rr)
    mock_parse = corpus.func("mocking:MockRSTParser.parse")
    pcalls = []
    for c in _own_calls(rr):
        ts = g.resolve_call(c, rr)
        flat = g.flat_targets(ts)
        if any(t.fq == mock_parse.fq for t in flat) or (isinstance(c.func, ast.Attribute) and c.func.attr == "parse" and any(isinstance(t, (External, Unresolved)) for t in ts) and len(c.args) == 2):
            pcalls.append(c)
    if not pcalls:
        raise Unsupported(f"{rr.site()}: no nested rST parser call found in render_restructuredtext")
    for pc in pcalls:
        darg = arg_or_kw(pc, 1, "document")
        k = f"{rr.fq}|settings of the document given to {short(pc.func, 40)}"
        if not isinstance(darg, ast.Name):
            raise Unsupported(f"{rr.module.site(pc)}: document argument `{short(darg, 30) if darg is not None else '?'}` is not a local name")
        dn = darg.id
        pst = cfg.stmt_of(pc)
        stores = [n for n in rr.local_nodes() if isinstance(n, ast.Assign) and any(unparse(t) == f"{dn}.settings" for t in n.targets)]
        created = _deref(darg, rr)
        via_ctor = isinstance(created, ast.Call) and any(_is_outer_settings(a, rr) for a in list(created.args) + [kw.value for kw in created.keywords])
        good = [s for s in stores if _is_outer_settings(s.value, rr)]
        bad = [s for s in stores if not _is_outer_settings(s.value, rr)]
        if bad:
            rep.violation("C20.R4", k, rr.module.site(bad[0]), f"`{short(bad[0], 60)}`: the nested rST document does not carry the outer document's settings object, so raw_enabled/file_insertion_enabled of the build are not seen by rST directives inside eval-rst")
        elif via_ctor or any(cfg.dominates(s, pst) for s in good):
            rep.ok("C20.R4", k, rr.module.site(good[0] if good else created), "settings object shared before the nested parse")
        elif good:
            rep.violation("C20.R4", k, rr.module.site(good[0]), "the settings are shared only after (or not on every path before) the nested rST parse has run")
        else:
            rep.violation("C20.R4", k, rr.module.site(pc), f"the nested rST parser runs on `{dn}` with freshly created default settings (raw and file insertion enabled): `.. include::`, `.. raw:: :file:` and `.. csv-table:: :file:` inside eval-rst read files although file insertion is disabled")
    # MockRSTParser.parse hands the same document on
    sup = [c for c in _own_calls(mock_parse) if (dotted(c.func) or "").startswith("super().") and c.func.attr == "parse"]  # type: ignore[union-attr]
    k = f"{mock_parse.fq}|passes its document to the rST parser"
    if len(sup) != 1:
        raise Unsupported(f"{mock_parse.site()}: expected one super().parse call")
    darg = arg_or_kw(sup[0], 1, "document")
    if isinstance(darg, ast.Name) and darg.id in mock_parse.params:
        rep.ok("C20.R4", k, mock_parse.module.site(sup[0]))
    else:
        rep.violation("C20.R4", k, mock_parse.module.site(sup[0]), f"super().parse is given `{short(darg, 30) if darg is not None else '?'}`, not the document parameter")
    # (b) the mocks
    mk = corpus.mod("mocking")
    n_doc = 0
    for cname in ("MockInliner", "MockState", "MockStateMachine", "MockIncludeDirective"):
        ci = mk.cls(cname)
        init = ci.methods.get("__init__")
        if init is None:
            raise AnchorMissing(f"{ci.fq}.__init__")
        rparams = _renderer_params(init)
        found = 0
        for m in ci.methods.values():
            for n in m.local_nodes():
                if isinstance(n, (ast.Assign, ast.AnnAssign)):
                    tgts = n.targets if isinstance(n, ast.Assign) else [n.target]
                    if any(unparse(t) == "self.document" for t in tgts) and n.value is not None:
                        found += 1
                        n_doc += 1
                        _judge_doc_value(rep, m, n, n.value, rparams, f"{ci.fq}.document")
        if not found:
            raise AnchorMissing(f"{ci.fq} no longer assigns self.document")
        # class bodies nested in the methods (MockState.memo Struct)
        for q, inner in mk.classes.items():
            if q.startswith(f"{cname}.") and q != cname:
                owner = None
                for m in ci.methods.values():
                    if any(x is inner.node for x in ast.walk(m.node)):
                        owner = m
                for st in inner.node.body:
                    if isinstance(st, ast.Assign) and any(isinstance(t, ast.Name) and t.id == "document" for t in st.targets) and owner is not None:
                        n_doc += 1
                        _judge_doc_value(rep, owner, st, st.value, _renderer_params(owner) or rparams, f"{inner.fq}.document")
    if n_doc < 4:
        rep.error("C20.R4", f"expected a document attribute in each of the four mocks, found {n_doc}")
    # (c) the mocks are built around the renderer itself
    mocks = {f"{mk.name}.{n}" for n in ("MockInliner", "MockState", "MockStateMachine", "MockIncludeDirective")}
    rcls = _renderer_classes(corpus)
    for fi in corpus.all_functions():
        if fi.is_lambda:
            continue
        for c in _own_calls(fi):
            full = fi.module.resolve(dotted(c.func) or "")
            if full not in mocks:
                continue
            owner = fi
            while owner.parent_func is not None:
                owner = owner.parent_func
            k = f"{fi.fq}|{full.rsplit('.', 1)[-1]}(renderer={short(arg_or_kw(c, 0, 'renderer'), 30) if arg_or_kw(c, 0, 'renderer') is not None else '?'})"
            a0 = _deref(arg_or_kw(c, 0, "renderer"), fi)
            text = unparse(a0) if a0 is not None else "?"
            in_renderer = owner.cls is not None and owner.cls.fq in rcls
            in_mock = owner.cls is not None and f"{owner.cls.module.name}.{owner.cls.name}" in mocks
            if in_renderer and text == "self":
                rep.ok("C20.R4", k, fi.module.site(c), "mock wraps the running renderer")
            elif in_mock and (text in ("self.renderer", "self._renderer") or (isinstance(a0, ast.Name) and a0.id in _renderer_params(fi))):
                rep.ok("C20.R4", k, fi.module.site(c), "mock hands on the renderer it was built around")
            elif isinstance(a0, ast.Call):
                rep.violation("C20.R4", k, fi.module.site(c), f"the mock is built around a new object `{short(a0, 40)}`, not the running renderer: directives would see another document's settings")
            else:
                raise Unsupported(f"{fi.module.site(c)}: cannot tell which renderer `{text}` is")
    rep.expect_min("C20.R4", 8, "eval-rst settings, MockRSTParser pass-through, >= 4 mock documents, mock constructions")


def _is_outer_settings(e: ast.expr | None, fi: FunctionInfo) -> bool:
    e = _deref(e, fi)
    return e is not None and unparse(e) == "self.document.settings"


def _renderer_params(fi: FunctionInfo) -> set[str]:
    out = set()
    a = fi.node.args
    for x in a.posonlyargs + a.args + a.kwonlyargs:
        ann = unparse(x.annotation).strip("'\"") if x.annotation is not None else ""
        if ann.endswith("DocutilsRenderer") or x.arg == "renderer":
            out.add(x.arg)
    return out


def _judge_doc_value(rep: Report, fi: FunctionInfo, st: ast.stmt, value: ast.expr, rparams: set[str], label: str) -> None:
    v = _deref(value, fi)
    text = unparse(v)
    k = f"{label} = {short(value, 50)}"
    site = fi.module.site(st)
    allowed = {f"{p}.document" for p in rparams} | {"self.document", "self._renderer.document", "self.renderer.document"}
    if text in allowed:
        rep.ok("C20.R4", k, site, "the renderer's document (its settings are the build's settings)")
        return
    if isinstance(v, ast.Call) and (dotted(v.func) or "").rsplit(".", 1)[-1] in DOC_CTORS:
        rep.violation("C20.R4", k, site, f"the mock exposes a freshly created document (`{short(v, 50)}`) instead of the renderer's: docutils' raw/include/csv-table checks read default settings (raw and file insertion enabled)")
        return
    raise Unsupported(f"{site}: `{short(st, 60)}` - cannot tell whether this is the renderer's document")


RULES = [r1_filter_postdominates, r2_no_late_raw, r3_file_read_dominance, r4_shared_settings_real_documents]


# ---------------------------------------------------------------------------
# mutants of the current tree


def _reindent(text: str, extra: str) -> str:
    lines = text.split("\n")
    return "\n".join([lines[0]] + [(extra + l if l.strip() else l) for l in lines[1:]])


def mutants(corpus: Corpus):
    out: list = []
    dm = corpus.mod("parsers.docutils_")
    base = corpus.mod("mdit_to_docutils.base")
    mk = corpus.mod("mocking")
    tr = corpus.mod("mdit_to_docutils.transforms")
    parse = dm.func("Parser.parse")
    flt = find_node(parse, lambda n: isinstance(n, ast.If) and _mentions_setting(n.test, "raw_enabled", parse))
    render_st = find_stmt(parse, lambda s: isinstance(s, ast.Expr) and isinstance(s.value, ast.Call) and unparse(s.value.func) == "parser.render")
    if flt is None or render_st is None:
        out.append(("c20-r1-*", "raw filter or render statement not found in Parser.parse"))
    else:
        ind = indent_of(parse, flt)
        # 1. filter switched off
        out.append(Mutant("c20-filter-dropped", "C20.R1", dm.rel, splice(dm.src, flt.test, "False"), expect="Parser.parse|raw filter after", canary=True))
        # 2. early return between render and filter
        seg = segment(dm.src, render_st)
        out.append(Mutant("c20-return-before-filter", "C20.R1", dm.rel, splice(dm.src, render_st, seg + f"\n{ind}if not document.children:\n{ind}    return"), expect="Parser.parse|raw filter after"))
        # 3. filter moved in front of the render call
        fseg = segment(dm.src, flt)
        src3 = splice(dm.src, flt, "pass")
        src3 = splice(src3, render_st, fseg + f"\n{ind}" + seg)
        out.append(Mutant("c20-filter-before-render", "C20.R1", dm.rel, src3, expect="Parser.parse|raw filter after"))
        # 4. extra condition
        out.append(Mutant("c20-filter-extra-condition", "C20.R1", dm.rel, splice(dm.src, flt.test, segment(dm.src, flt.test) + " and not config.gfm_only"), expect="raw filter|test"))
        loop = find_node(parse, lambda n: isinstance(n, ast.For) and "nodes.raw" in unparse(n.iter))
        if loop is not None:
            # 5. only HTML raw is filtered
            rs = find_node(parse, lambda n: isinstance(n, ast.Expr) and isinstance(n.value, ast.Call) and unparse(n.value.func).endswith(".parent.replace"))
            if rs is not None:
                ri = indent_of(parse, rs)
                out.append(Mutant("c20-filter-html-only", "C20.R1", dm.rel, splice(dm.src, rs, f"if {loop.target.id}.get('format') == 'html':\n{ri}    " + segment(dm.src, rs)), expect="raw filter|every-node", canary=True))
                out.append(Mutant("c20-filter-silent-removal", "C20.R1", dm.rel, splice(dm.src, rs, f"{loop.target.id}.parent.remove({loop.target.id})"), expect="raw filter|reported"))
            # 6. not the whole document
            it = loop.iter
            trav = find_node(parse, lambda n: isinstance(n, ast.Call) and isinstance(n.func, ast.Attribute) and n.func.attr in ("traverse", "findall") and n.args and unparse(n.args[0]) == "nodes.raw")
            if trav is not None:
                out.append(Mutant("c20-filter-no-descend", "C20.R1", dm.rel, splice(dm.src, trav, segment(dm.src, trav)[:-1] + ", descend=False)"), expect="raw filter|coverage"))
                out.append(Mutant("c20-filter-first-section-only", "C20.R1", dm.rel, splice(dm.src, trav.func.value, segment(dm.src, trav.func.value) + "[0]"), expect="raw filter|coverage"))
            # 7. invisible report
            w = find_node(parse, lambda n: isinstance(n, ast.Attribute) and n.attr == "warning" and unparse(n.value).endswith("reporter") and n.lineno >= flt.lineno)
            if w is not None:
                out.append(Mutant("c20-filter-reports-info", "C20.R1", dm.rel, splice(dm.src, w, segment(dm.src, w.value) + ".info"), expect="raw filter|reported"))
        # R2: a raw node appended after the filter
        fin = find_stmt(parse, lambda s: isinstance(s, ast.Expr) and isinstance(s.value, ast.Call) and unparse(s.value.func) == "self.finish_parse")
        if fin is not None:
            out.append(Mutant("c20-raw-after-filter", "C20.R2", dm.rel, splice(dm.src, fin, f"document.append(nodes.raw('', '<!-- myst -->', format='html'))\n{ind}" + segment(dm.src, fin)), expect="after the filter", canary=True))
    # R2: a transform builds raw HTML
    cf = tr.func("CollectFootnotes.apply")
    tcall = find_node(cf, lambda n: isinstance(n, ast.Call) and unparse(n.func) == "nodes.transition")
    if tcall is not None:
        out.append(Mutant("c20-transform-builds-raw", "C20.R2", tr.rel, splice(tr.src, tcall, "nodes.raw('', '<hr class=\"footnotes\">', format='html')"), expect="CollectFootnotes.apply"))
    else:
        out.append(("c20-transform-builds-raw", "no nodes.transition() in CollectFootnotes.apply"))
    ra = tr.func("ResolveAnchorIds.apply")
    icall = find_node(ra, lambda n: isinstance(n, ast.Call) and unparse(n.func) == "nodes.inline")
    if icall is not None:
        out.append(Mutant("c20-anchor-transform-builds-raw", "C20.R2", tr.rel, splice(tr.src, icall, "nodes.raw('', '<span></span>', format='html')"), expect="ResolveAnchorIds.apply"))
    # R3
    run = mk.func("MockIncludeDirective.run")
    g = find_node(run, lambda n: isinstance(n, ast.If) and _mentions_setting(n.test, "file_insertion_enabled", run))
    if g is not None:
        out.append(Mutant("c20-insertion-guard-dropped", "C20.R3", mk.rel, splice(mk.src, g.test, "False"), expect="read_text", canary=True))
        gi = indent_of(run, g)
        # guard placed after the read
        rd = find_stmt(run, lambda s: isinstance(s, ast.Try) and "read_text" in unparse(s))
        if rd is not None:
            gseg = segment(mk.src, g)
            src = splice(mk.src, rd, segment(mk.src, rd) + f"\n{gi}" + gseg)
            src = splice(src, g, "pass")
            out.append(Mutant("c20-insertion-guard-after-read", "C20.R3", mk.rel, src, expect="read_text"))
        lv = find_node(run, lambda n: isinstance(n, ast.Constant) and n.value == 2 and isinstance(parent(n), ast.Call) and unparse(parent(n).func) == "DirectiveError" and g.lineno <= n.lineno <= g.end_lineno)
        if lv is not None:
            out.append(Mutant("c20-refusal-level-severe", "C20.R3", mk.rel, splice(mk.src, lv, "4"), expect="refusal"))
            out.append(Mutant("c20-refusal-level-info", "C20.R3", mk.rel, splice(mk.src, lv, "1"), expect="refusal"))
        # guard weakened: only refuses outside Sphinx
        out.append(Mutant("c20-insertion-guard-weakened", "C20.R3", mk.rel, splice(mk.src, g.test, segment(mk.src, g.test) + " and self.renderer.sphinx_env is None"), expect="read_text"))
    else:
        out.append(("c20-insertion-guard-*", "no file_insertion_enabled test in MockIncludeDirective.run"))
    # a second reader reachable from directives
    fm = corpus.mod("sphinx_ext.directives").func("FigureMarkdown.run")
    first = fm.node.body[0] if not (isinstance(fm.node.body[0], ast.Expr) and isinstance(fm.node.body[0].value, ast.Constant)) else fm.node.body[1]
    out.append(Mutant("c20-directive-reads-file", "C20.R3", fm.module.rel, splice(fm.module.src, first, "caption_text = open(self.arguments[0] + '.caption').read() if self.options.get('caption-file') else None\n" + indent_of(fm, first) + segment(fm.module.src, first)), expect="FigureMarkdown.run"))
    # R4
    rr = base.func("DocutilsRenderer.render_restructuredtext")
    st = find_stmt(rr, lambda s: isinstance(s, ast.Assign) and unparse(s.targets[0]).endswith(".settings"))
    if st is not None:
        out.append(Mutant("c20-evalrst-settings-not-shared", "C20.R4", base.rel, splice(base.src, st, "pass"), expect="render_restructuredtext", canary=False))
        out.append(Mutant("c20-evalrst-settings-copied-defaults", "C20.R4", base.rel, splice(base.src, st.value, "make_document().settings"), expect="render_restructuredtext"))
        pst = find_stmt(rr, lambda s: isinstance(s, ast.Expr) and isinstance(s.value, ast.Call) and unparse(s.value.func).endswith(".parse"))
        if pst is not None and pst.lineno > st.lineno:
            src = splice(base.src, pst, segment(base.src, pst) + "\n" + indent_of(rr, pst) + segment(base.src, st))
            src = splice(src, st, "pass")
            out.append(Mutant("c20-evalrst-settings-shared-too-late", "C20.R4", base.rel, src, expect="render_restructuredtext"))
    else:
        out.append(("c20-evalrst-settings-*", "no `<doc>.settings = ...` in render_restructuredtext"))
    for cname in ("MockState", "MockInliner"):
        init = mk.func(f"{cname}.__init__")
        a = find_stmt(init, lambda s: isinstance(s, ast.Assign) and unparse(s.targets[0]) == "self.document")
        if a is not None:
            out.append(Mutant(f"c20-{cname.lower()}-fresh-document", "C20.R4", mk.rel, splice(mk.src, a.value, 'new_document(renderer.document["source"])'), expect=f"{cname}.document"))
    rdv = base.func("DocutilsRenderer.run_directive")
    c = find_node(rdv, lambda n: isinstance(n, ast.Call) and unparse(n.func) == "MockState")
    if c is not None and c.args:
        out.append(Mutant("c20-mockstate-around-other-renderer", "C20.R4", base.rel, splice(base.src, c.args[0], "type(self)(self.md)"), expect="MockState(renderer"))
    return out
