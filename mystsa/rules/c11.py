"""C11 - footnotes are numbered, linked and collected consistently."""

from __future__ import annotations

import ast

from ..corpus import (
    AnchorMissing,
    Corpus,
    FunctionInfo,
    Module,
    Unsupported,
    ancestors,
    arg_or_kw,
    dotted,
    kwarg,
    parent,
    short,
    splice,
    unparse,
)
from ..flow import ENTRY, EXIT, facts, get_cfg
from ..mutant import Mutant
from ..report import Report
from .common import find_node, find_stmt, rule

PROP = "C11"
READY = False
TECHNIQUE = "path counting over the CFGs of the two footnote render methods and the three transforms, symbolic evaluation of transform priorities against docutils' Footnotes, role-based checks of registries, guards and plugin options"

META = {
    "explanation": (
        "Structural necessary conditions of consistent footnote numbering, linking, collection and reporting, decided on "
        "syntax trees, CFG path counts and the installed library sources (parsed, never imported). "
        "(R1) SortFootnotes runs before and UnreferencedFootnotesDetector/CollectFootnotes run after docutils' Footnotes "
        "transform (priorities evaluated symbolically against docutils' source); every transform is registered exactly once "
        "per front end and Sphinx's own unreferenced-footnote detector is removed on every path of setup_sphinx, except paths on "
        "which a membership test on the same registry list shows it is not registered. "
        "(R2) The reference and the definition renderer classify the same, never re-bound label with the same digit "
        "predicate (directly, through a local alias or a value-only helper; several correlated branches are allowed) and on "
        "every path of each side feed the matching docutils registries (manual: Text/label child + note_footnote; auto: "
        "auto=1 + note_autofootnote(_ref)); refname = names[0] = the unmodified label; stores precede the registry calls "
        "that read them; on manual paths the label node is added before anything that can append a child to the footnote "
        "(note_explicit_target attaches docutils' duplicate-name system message, the body its paragraphs), because the "
        "collector and docutils read children[0] as the label; helpers that receive the node are followed. "
        "(R3) The duplicate-definition path issues exactly one [ref.footnote] warning and returns before any construction, "
        "registration or rendering of the duplicate itself, but still searches the token's children for definitions of other "
        "labels: each nested definition is dispatched exactly once and not searched further (its own rendering handles what is "
        "inside it - so no flat walk()/findall over all descendants), every other token is searched further; tokens whose "
        "content is tokenised only when rendered (fence, colon_fence, html_block, substitution_block) are not covered by that "
        "search (known finding). "
        "(R4) The collector's move loop (in apply or one helper) is guarded by myst_footnote_sort only, gathers every entry "
        "of document.footnotes and autofootnotes exactly once (from the registries, not by walking the tree: a registered "
        "footnote detached from the tree must be re-attached), detaches then attaches each footnote once per iteration, in "
        "ascending sorted(key=) order; at most one transition is built, under both settings, appended to the document before "
        "the footnotes; SortFootnotes permutes document.autofootnotes in place exactly once (no filtered rebuild, no "
        "discarded copy), ordered from document.autofootnote_refs. "
        "(R5) footnote_plugin runs with inline=False, move_to_end=False, always_match_refs=True (defaults read from the "
        "plugin source), and the `[text]{attrs}` span rule of attrs_plugin is inserted behind footnote_ref in markdown-it's "
        "inline chain (chain and insertion anchors read from markdown_it/parser_inline.py and the two plugin sources). "
        "(R6) The duplicate test (one membership, an `or` of memberships, any() of either, also over itertools.chain, or a "
        "look-up T.get(key)/T[key] tested with isinstance / is not None) consults "
        "the footnote registries (both of them), not the document-wide name/id tables, "
        "compares labels verbatim as they are stored (no case/whitespace/character folding on either side), and "
        "everything it reads (registry entry, name) is stored before the footnote body is rendered, where a nested duplicate "
        "can occur. "
        "(R7) The transforms take the footnote options only from the per-document store the renderer writes - an attribute "
        "myst_footnote_* of the document or of its settings, same object and same name on both sides (attribute, getattr with default, "
        "local alias or value helper with a literal/f-string name) - never from a build-wide configuration object such "
        "as env.myst_config, which ignores front matter; every such setting is written unconditionally during render from the same-named "
        "MdParserConfig field, and each front end's parse builds the configuration it hands to create_md_parser from the "
        "document at hand, never from an attribute the parser object stores itself (a memo that outlives the document); a "
        "wrapper around create_md_parser that can return a parser object kept between calls must store the current "
        "configuration in its options['myst_config'] on every path. "
        "(R8) Sort keys are total: one comparable kind on all returns, or every label the renderer can create converts with int(). "
        "(R9) The footnote transition is attached only under a guard that looks at the document's children (not first) and "
        "- the class test must be quantified over ALL top-level children: applied to one child picked by position, next(), "
        "min/max or pop() it is a violation; when the guard is an all()/any() over the children it must say exactly 'some child is "
        "neither a footnote nor one of the leading nodes docutils' Transitions transform skips' (title, subtitle - read from "
        "docutils/transforms/misc.py; a docutils superclass such as Titular counts); because docutils' SectNum/Contents/Filter "
        "transforms remove nodes after the footnotes were collected, the attached transition is handed to a pending transform "
        "(registered once on every path that builds it) whose priority lies between the last of those removers and "
        "Transitions (all read from the docutils sources) and which removes it exactly when all nodes in front of it are such "
        "leading nodes; in both places the class set may cover, besides those leading classes (and footnote in the guard), only "
        "system_message - a superclass such as PreBibliographic/Invisible that also covers raw, comment, target ... (class "
        "hierarchy read from docutils/nodes.py) is a violation - and under a test for an existing final transition (not adjacent) whose look-out goes down the tree (advancing loop, "
        "recursion or docutils traversal), because docutils later hoists a transition that ends the last section. "
        "(R10) SortFootnotes ranks a footnote by the position of its FIRST reference (list.index, or a first-wins table "
        "- setdefault / `not in` guarded store / reversed fill - over autofootnote_refs or over the local list of their "
        "labels; never a last-wins table). "
        "(R12) Because labels are registered with note_explicit_target, a transform that runs before docutils' Footnotes puts a "
        "name that a clash moved to dupnames back into names - for both registries, independent of the options, registered "
        "in both front ends. "
        "(R13) The label semantics of the user documentation (docs/syntax/typography.md: 'case-insensitive') are compared with "
        "the verbatim use of the label in the two render methods (known finding). "
        "(R11) UnreferencedFootnotesDetector examines both registries and reports every definition without back-references "
        "exactly once: one report per iteration on the unreferenced path, none on the referenced path, no early exit, and a "
        "deferred collection keeps one entry per footnote and is reported once per entry."
    ),
    "not_decided": (
        "the numbers themselves as a function of the arrangement (computed by docutils' Footnotes transform at run time); "
        "with footnote_sort off, auto numbers follow definition order (documented behaviour of the option); which container "
        "types the final-transition look-out descends into (only that it descends); a manual/auto classification moved "
        "wholesale into a helper is ANALYSIS-ERROR (path counts would span two CFGs); rST footnotes created inside eval-rst "
        "(parsed into a separate document); inline rules of third-party markdown-it plugins other than footnote/attrs; "
        "string transformations in the duplicate test other than the tabled folding methods/functions are ANALYSIS-ERROR"
    ),
    "trusted_base": [
        "CPython ast",
        "docutils/transforms/references.py, sphinx/transforms/__init__.py, markdown_it/parser_inline.py, mdit_py_plugins/footnote/index.py and mdit_py_plugins/attrs/index.py as installed",
        "mystsa CFG, dominance and path counting",
    ],
    "assumptions": [
        "docutils' Footnotes transform numbers document.autofootnotes in list order and resolves references by name",
        "docutils' Transitions transform moves a transition that ends a section up to the parent level",
        "markdown-it tries inline rules in chain order and the first rule that matches wins; Ruler.after(x) inserts directly behind x",
        "footnote names that survive in node['names'] are unique in the document (docutils moves clashing names to dupnames)",
        "symbol footnotes never reach the outer document's registries (eval-rst parses into a separate document)",
        "footnote labels are case- and whitespace-sensitive (markdown-it's footnote plugin keys definitions by the verbatim label)",
    ],
}

BASE = "mdit_to_docutils.base"
TRANS = "mdit_to_docutils.transforms"
REF_FN = f"{BASE}:DocutilsRenderer.render_footnote_ref"
DEF_FN = f"{BASE}:DocutilsRenderer.render_footnote_reference"

DIGIT_PREDICATES = {
    "isdecimal": "all characters in Unicode category Nd: exactly the strings int() accepts (non-empty, no sign/space)",
    "isdigit": "also accepts superscript/circled digits ('²'), which int() rejects",
    "isnumeric": "also accepts fractions and CJK numerals, which int() rejects",
}
# document-wide tables that hold every named element, whatever its kind
FLAT_TABLES = {"nameids", "nametypes", "ids", "refnames", "refids"}
FOOTNOTE_REGISTRIES = {"footnotes", "autofootnotes", "symbol_footnotes"}


# ---------------------------------------------------------------------------
# small helpers


def _single_assign(fi: FunctionInfo, name: str) -> ast.expr | None:
    """Value of the only plain assignment ``name = value`` in ``fi`` (None if 0 or several writers)."""
    vals = []
    for n in fi.local_nodes():
        if isinstance(n, ast.Assign):
            for t in n.targets:
                if isinstance(t, ast.Name) and t.id == name:
                    vals.append(n.value)
                elif isinstance(t, (ast.Tuple, ast.List)) and any(isinstance(e, ast.Name) and e.id == name for e in ast.walk(t)):
                    vals.append(None)
        elif isinstance(n, (ast.AugAssign, ast.AnnAssign)) and isinstance(n.target, ast.Name) and n.target.id == name:
            vals.append(n.value if isinstance(n, ast.AnnAssign) else None)
        elif isinstance(n, (ast.For, ast.comprehension)) and any(isinstance(e, ast.Name) and e.id == name for e in ast.walk(n.target)):
            vals.append(None)
        elif isinstance(n, ast.NamedExpr) and n.target.id == name:
            vals.append(None)
    if len(vals) == 1:
        return vals[0]
    return None


def _deref(fi: FunctionInfo, e: ast.expr, depth: int = 3) -> ast.expr:
    while depth and isinstance(e, ast.Name) and e.id not in fi.params:
        v = _single_assign(fi, e.id)
        if v is None:
            break
        e = v
        depth -= 1
    return e


_CUR: dict = {"corpus": None}


def _use(corpus: Corpus) -> None:
    """Remember the corpus being analysed (helper resolution needs the class hierarchy)."""
    _CUR["corpus"] = corpus


def _resolve_helper(fi: FunctionInfo, call: ast.Call) -> FunctionInfo | None:
    """The package function a call ``self.h(...)`` / ``h(...)`` made in ``fi`` runs (None if not a package helper)."""
    f = call.func
    owner = fi
    while owner.parent_func is not None:
        owner = owner.parent_func
    if isinstance(f, ast.Attribute) and _is_name(f.value, "self") and owner.cls is not None:
        corpus = _CUR["corpus"]
        h = corpus.lookup_method(owner.cls, f.attr) if corpus is not None else owner.cls.methods.get(f.attr)
        if h is None:
            return None
        if corpus is not None and any(f.attr in sc.methods for sc in corpus.subclasses(owner.cls)):
            raise Unsupported(f"{fi.module.site(call)}: helper self.{f.attr}() is overridden in a subclass")
        return h
    if isinstance(f, ast.Name):
        h = fi.module.functions.get(f"{fi.qualname}.{f.id}") or fi.module.functions.get(f.id)
        if h is None and _CUR["corpus"] is not None:
            h = _CUR["corpus"].find_function(fi.module.resolve(f.id))
        return h
    return None


def _bind_args(helper: FunctionInfo, call: ast.Call) -> dict[str, ast.expr]:
    """parameter name -> argument expression (positional and keyword; no *args/**kwargs)."""
    a = helper.node.args
    params = [x.arg for x in a.posonlyargs + a.args]
    if helper.cls is not None and params and params[0] in ("self", "cls") and isinstance(call.func, ast.Attribute):
        params = params[1:]
    if any(isinstance(x, ast.Starred) for x in call.args) or any(k.arg is None for k in call.keywords) or len(call.args) > len(params):
        raise Unsupported(f"call `{short(call, 50)}` binds its arguments through */**")
    out = dict(zip(params, call.args))
    for k in call.keywords:
        out[k.arg] = k.value
    return out


def _enter_helper(fi: FunctionInfo, call: ast.Call, depth: int = 0):
    """(helper, returned expression) if ``call`` runs a package helper that only computes a value
    (docstring, plain assignments, one return); the helper's parameters that receive the label
    are marked so that ``_is_label`` recognises them inside the helper."""
    if depth > 2:
        return None
    h = _resolve_helper(fi, call)
    if h is None or h.is_lambda or h.fq == fi.fq:
        return None
    rets = []
    for st in h.node.body:
        if isinstance(st, ast.Expr) and isinstance(st.value, ast.Constant):
            continue
        if isinstance(st, ast.Assign) and all(isinstance(t, ast.Name) for t in st.targets):
            continue
        if isinstance(st, ast.AnnAssign) and isinstance(st.target, ast.Name):
            continue
        if isinstance(st, ast.Return) and st.value is not None:
            rets.append(st)
            continue
        return None
    if len(rets) != 1 or h.node.body[-1] is not rets[0]:
        return None
    binding = _bind_args(h, call)
    marks = {p for p, arg in binding.items() if _is_label(fi, arg)}
    h.__dict__.setdefault("_c11_label_params", set()).update(marks)
    return h, rets[0].value


def _is_label(fi: FunctionInfo, e: ast.expr) -> bool:
    """``e`` is the footnote label of the token: ``<token>.meta["label"]``, a single-assignment alias,
    or (inside a followed helper) a parameter that receives it."""
    if isinstance(e, ast.Name) and e.id in fi.__dict__.get("_c11_label_params", ()) and e.id in fi.params:
        return True
    e = _deref(fi, e)
    return (
        isinstance(e, ast.Subscript)
        and isinstance(e.value, ast.Attribute)
        and e.value.attr == "meta"
        and isinstance(e.slice, ast.Constant)
        and e.slice.value == "label"
    )


def _node_var(fi: FunctionInfo, cls_dotted: str) -> str:
    """Local name bound (once) to a construction of the docutils class ``cls_dotted``."""
    found = []
    for n in fi.local_nodes():
        if isinstance(n, ast.Assign) and len(n.targets) == 1 and isinstance(n.targets[0], ast.Name) and isinstance(n.value, ast.Call):
            if fi.module.resolve(dotted(n.value.func) or "") == cls_dotted:
                found.append(n.targets[0].id)
    if len(found) != 1:
        raise Unsupported(f"{fi.qualname}: expected one local bound to {cls_dotted}(...), found {len(found)}")
    return found[0]


def _is_name(e: ast.AST | None, name: str) -> bool:
    return isinstance(e, ast.Name) and e.id == name


def _method_call_on_arg(n: ast.AST, meth: str, var: str) -> bool:
    """``<anything>.meth(var, ...)``"""
    return isinstance(n, ast.Call) and isinstance(n.func, ast.Attribute) and n.func.attr == meth and bool(n.args) and _is_name(n.args[0], var)


def _item_store(n: ast.AST, var: str, key: str) -> ast.expr | None:
    """value of ``var[key] = value``"""
    if isinstance(n, ast.Assign) and len(n.targets) == 1:
        t = n.targets[0]
        if isinstance(t, ast.Subscript) and _is_name(t.value, var) and isinstance(t.slice, ast.Constant) and t.slice.value == key:
            return n.value
    return None


def _child_added(n: ast.AST, var: str) -> ast.expr | None:
    """child expression of ``var += child`` / ``var.append(child)``"""
    if isinstance(n, ast.AugAssign) and isinstance(n.op, ast.Add) and _is_name(n.target, var):
        return n.value
    if isinstance(n, ast.Call) and isinstance(n.func, ast.Attribute) and n.func.attr == "append" and _is_name(n.func.value, var) and len(n.args) == 1:
        return n.args[0]
    return None


class Events:
    """Named events (AST nodes) of one function, countable along CFG paths."""

    def __init__(self, fi: FunctionInfo):
        self.fi = fi
        self.cfg = get_cfg(fi)
        self.ev: dict[str, list[ast.AST]] = {}

    def add(self, kind: str, node: ast.AST) -> None:
        self.ev.setdefault(kind, []).append(node)

    def nodes(self, kind: str) -> list[ast.AST]:
        return self.ev.get(kind, [])

    def _weight(self, kind: str):
        w: dict[object, int] = {}
        for n in self.nodes(kind):
            st = self.cfg.stmt_of(n)
            w[st] = w.get(st, 0) + 1
        return lambda n: w.get(n, 0) if not isinstance(n, (str, tuple)) else 0

    def count(self, kind: str, start, stop=EXIT) -> set[int]:
        res = self.cfg.counts(start, [stop], self._weight(kind))
        return set(res.get(stop, set()))

    def via(self, kind: str, edge) -> set[int]:
        """Event counts over whole normal paths ENTRY -> edge -> EXIT."""
        a = self.count(kind, ENTRY, edge)
        b = self.count(kind, edge, EXIT)
        return {min(2, x + y) for x in a for y in b}

    def paths(self, kind: str, start, stop, avoid=(), must=()) -> set[int]:
        """Event counts (saturating at 2) over the paths start -> stop that touch no node in ``avoid``
        and (if ``must`` is given) at least one node in ``must``."""
        w = self._weight(kind)
        avoid, must = set(avoid), set(must)
        vals: dict[tuple, set[int]] = {}
        s0 = (start, (not must) or start in must)
        vals[s0] = {min(2, w(start))}
        work = [s0]
        while work:
            st = work.pop()
            node, flag = st
            if node == stop and node != start:
                continue
            for nx in self.cfg.succ.get(node, []):
                if nx in avoid:
                    continue
                ns = (nx, flag or nx in must)
                new = {min(2, c + w(nx)) for c in vals[st]}
                if not new <= vals.get(ns, set()):
                    vals.setdefault(ns, set()).update(new)
                    work.append(ns)
        return set(vals.get((stop, True), set()))


def _fmt(s: set[int]) -> str:
    return "{" + ", ".join("2+" if x == 2 else str(x) for x in sorted(s)) + "}" if s else "{unreachable}"


def _sibling_function(corpus: Corpus, dotted_name: str):
    """(module, FunctionInfo) of a library function, following re-exports in __init__ files."""
    for _ in range(4):
        modname, _, fname = dotted_name.rpartition(".")
        m = corpus.sibling_module(modname)
        if m is None:
            raise AnchorMissing(f"sibling module {modname} not found")
        if fname in m.functions:
            return m, m.functions[fname]
        if fname in m.imports:
            dotted_name = m.imports[fname]
            continue
        break
    raise AnchorMissing(f"library function {dotted_name} not found")


# ---------------------------------------------------------------------------
# R1 - priorities and registration

FOOTNOTES_CLS = "docutils.transforms.references.Footnotes"
TRANSFORM_CLASSES = ("SortFootnotes", "UnreferencedFootnotesDetector", "CollectFootnotes")


def _docutils_footnotes_priority(corpus: Corpus, rep: Report) -> int:
    m = corpus.sibling("docutils/transforms/references.py")
    rep.saw_sibling(m.rel)
    ci = m.cls("Footnotes")
    for st in ci.node.body:
        if isinstance(st, ast.Assign) and any(_is_name(t, "default_priority") for t in st.targets) and isinstance(st.value, ast.Constant) and isinstance(st.value.value, int):
            return st.value.value
    raise Unsupported("docutils Footnotes.default_priority is not an integer literal")


def _priority_offset(corpus: Corpus, cname: str, base_prio: int) -> tuple[int, ast.AST]:
    """k such that the class's default_priority == Footnotes.default_priority + k."""
    m = corpus.mod(TRANS)
    ci = m.cls(cname)
    stmts = [st for st in ci.node.body if isinstance(st, ast.Assign) and any(_is_name(t, "default_priority") for t in st.targets)]
    if len(stmts) != 1:
        raise Unsupported(f"{cname}: expected one default_priority assignment, found {len(stmts)}")

    def ev(e: ast.expr) -> int:
        if isinstance(e, ast.Constant) and isinstance(e.value, int) and not isinstance(e.value, bool):
            return e.value
        if isinstance(e, ast.Attribute) and e.attr == "default_priority" and m.resolve(dotted(e.value) or "") == FOOTNOTES_CLS:
            return base_prio
        if isinstance(e, ast.BinOp) and isinstance(e.op, (ast.Add, ast.Sub)):
            a, b = ev(e.left), ev(e.right)
            return a + b if isinstance(e.op, ast.Add) else a - b
        if isinstance(e, ast.UnaryOp) and isinstance(e.op, ast.USub):
            return -ev(e.operand)
        raise Unsupported(f"{cname}.default_priority: expression not understood: {short(e, 60)}")

    return ev(stmts[0].value) - base_prio, stmts[0]


def _class_mentions(fi: FunctionInfo, target: str) -> list[ast.AST]:
    return [n for n in fi.local_nodes() if isinstance(n, (ast.Name, ast.Attribute)) and isinstance(n.ctx, ast.Load) and not isinstance(parent(n), ast.Attribute) and fi.module.resolve(dotted(n) or "") == target]


def _no_indirection(fi: FunctionInfo) -> None:
    """A transform list built elsewhere (module constant, helper) is outside the understood subset."""
    m = fi.module
    for n in fi.local_nodes():
        if isinstance(n, ast.Name) and isinstance(n.ctx, ast.Load) and (n.id in m.const_nodes or n.id in m.functions):
            raise Unsupported(f"{fi.qualname} builds its transform list through `{n.id}`")
        if isinstance(n, ast.Call) and isinstance(n.func, ast.Attribute) and _is_name(n.func.value, "self"):
            raise Unsupported(f"{fi.qualname} builds its transform list through self.{n.func.attr}()")


def _elsewhere(corpus: Corpus, here: FunctionInfo, attr: str, target: str) -> None:
    """The registration call exists in another function: the path to it is not understood."""
    for fi in corpus.all_functions():
        if fi.fq == here.fq or fi.is_lambda:
            continue
        for n in fi.local_nodes():
            if isinstance(n, ast.Call) and isinstance(n.func, ast.Attribute) and n.func.attr == attr and n.args and fi.module.resolve(dotted(n.args[0]) or "") == target:
                raise Unsupported(f"{attr}({target.rsplit('.', 1)[-1]}) happens in {fi.fq}, not in {here.qualname}")


@rule("C11.R1")
def r1_priorities_and_registration(corpus: Corpus, rep: Report, tier: str):
    _use(corpus)
    rep.rule("C11.R1", "transform priorities bracket docutils' Footnotes; each transform registered exactly once per front end; Sphinx's own detector removed")
    base_prio = _docutils_footnotes_priority(corpus, rep)
    m = corpus.mod(TRANS)
    required = {
        "SortFootnotes": (lambda k: k < 0, "must run before docutils' Footnotes: numbers are assigned there, in the list order of document.autofootnotes"),
        "UnreferencedFootnotesDetector": (lambda k: k > 0, "must run after docutils' Footnotes: backrefs are filled there, earlier every footnote looks unreferenced"),
        "CollectFootnotes": (lambda k: k > 0, "must run after docutils' Footnotes: auto-numbered footnotes get their label (children[0]) there"),
    }
    ks = {}
    for cname, (pred, why) in required.items():
        k, st = _priority_offset(corpus, cname, base_prio)
        ks[cname] = k
        key = f"myst_parser.{TRANS}:{cname}|default_priority relative to docutils Footnotes"
        if pred(k):
            rep.ok("C11.R1", key, m.site(st), f"Footnotes{k:+d}")
        else:
            rep.violation("C11.R1", key, m.site(st), f"{cname}.default_priority = Footnotes{k:+d} ({base_prio + k}); {why}")
    rep.listed("C11.R1", "detector vs collector order", m.site(m.cls("CollectFootnotes").node), f"detector Footnotes{ks['UnreferencedFootnotesDetector']:+d}, collector Footnotes{ks['CollectFootnotes']:+d} (order between them is not observable)")

    tfq = f"myst_parser.{TRANS}."
    # docutils front end: all three in Parser.get_transforms, once each
    d = corpus.func("parsers.docutils_:Parser.get_transforms")
    rep.saw_function(d.fq)
    for cname in TRANSFORM_CLASSES:
        n = _class_mentions(d, tfq + cname)
        key = f"{d.fq}|registers {cname}"
        if len(n) == 1:
            rep.ok("C11.R1", key, d.module.site(n[0]))
        else:
            if not n:
                _no_indirection(d)
            rep.violation("C11.R1", key, d.site(), f"docutils front end names {cname} {len(n)} time(s) in get_transforms; it must be applied exactly once per document")
    # Sphinx front end: Sort/Collect in MystParser.get_transforms, detector via setup_sphinx (app-wide)
    s = corpus.func("parsers.sphinx_:MystParser.get_transforms")
    rep.saw_function(s.fq)
    for cname in ("SortFootnotes", "CollectFootnotes"):
        n = _class_mentions(s, tfq + cname)
        key = f"{s.fq}|registers {cname}"
        if len(n) == 1:
            rep.ok("C11.R1", key, s.module.site(n[0]))
        else:
            if not n:
                _no_indirection(s)
            rep.violation("C11.R1", key, s.site(), f"Sphinx front end names {cname} {len(n)} time(s) in get_transforms; it must be applied exactly once per document")
    setup = corpus.func("sphinx_ext.main:setup_sphinx")
    rep.saw_function(setup.fq)
    ev = Events(setup)
    sphinx_det = "sphinx.transforms.UnreferencedFootnotesDetector"
    for n in setup.local_nodes():
        if isinstance(n, ast.Call) and isinstance(n.func, ast.Attribute) and n.args:
            tgt = setup.module.resolve(dotted(n.args[0]) or "")
            if n.func.attr == "add_transform" and tgt == tfq + "UnreferencedFootnotesDetector":
                ev.add("add", n)
            if n.func.attr == "remove" and tgt == sphinx_det:
                ev.add("remove", n)
    in_parser = _class_mentions(s, tfq + "UnreferencedFootnotesDetector")
    c_add = ev.count("add", ENTRY)
    key = f"{setup.fq}|registers UnreferencedFootnotesDetector"
    if c_add == {1} and not in_parser:
        rep.ok("C11.R1", key, setup.module.site(ev.nodes("add")[0]), "app.add_transform, once on every path")
    else:
        if not ev.nodes("add"):
            _elsewhere(corpus, setup, "add_transform", tfq + "UnreferencedFootnotesDetector")
        rep.violation("C11.R1", key, setup.site(), f"Sphinx front end registers MyST's unreferenced-footnote detector {_fmt(c_add)} time(s) in setup_sphinx and {len(in_parser)} time(s) in MystParser.get_transforms; an unreferenced footnote must yield exactly one warning")
    sph = corpus.sibling("sphinx/transforms/__init__.py")
    rep.saw_sibling(sph.rel)
    key = f"{setup.fq}|removes sphinx.transforms.UnreferencedFootnotesDetector"
    if "UnreferencedFootnotesDetector" not in sph.classes:
        rep.listed("C11.R1", key, setup.site(), "installed Sphinx has no detector of its own")
    else:
        # paths on which Sphinx's class is known not to be registered have nothing to remove
        absent = []
        for n in setup.local_nodes():
            if isinstance(n, ast.If):
                for edge in ("T", "F"):
                    for atom, pol in facts(n.test, edge == "T"):
                        if isinstance(atom, ast.Compare) and len(atom.ops) == 1 and isinstance(atom.ops[0], (ast.In, ast.NotIn)) and setup.module.resolve(dotted(atom.left) or "") == sphinx_det:
                            same_list = any(isinstance(r.func, ast.Attribute) and unparse(r.func.value) == unparse(atom.comparators[0]) for r in ev.nodes("remove"))
                            registered = pol if isinstance(atom.ops[0], ast.In) else not pol
                            if same_list and not registered:
                                absent.append((edge, n))
        c_rm = ev.paths("remove", ENTRY, EXIT, avoid=absent) if absent else ev.count("remove", ENTRY)
        if c_rm == {1}:
            rep.ok("C11.R1", key, setup.module.site(ev.nodes("remove")[0]))
        else:
            if not ev.nodes("remove"):
                _elsewhere(corpus, setup, "remove", sphinx_det)
            rep.violation("C11.R1", key, setup.site(), f"Sphinx's own UnreferencedFootnotesDetector is removed {_fmt(c_rm)} time(s) on the paths of setup_sphinx; left in place, every unreferenced footnote is reported twice")
    rep.expect_min("C11.R1", 9, "3 priorities + 3 docutils registrations + 2 Sphinx registrations + detector add/remove")


# ---------------------------------------------------------------------------
# R5 - plugin options

REQUIRED_PLUGIN_OPTIONS = {
    "inline": (False, "inline footnotes (^[...]) produce footnote_ref tokens without meta['label'] and anonymous definitions the renderer has no handler for"),
    "move_to_end": (False, "the plugin would move all definitions into a footnote_block at the end of the token stream: definitions no longer stay where written when footnote_sort is off"),
    "always_match_refs": (True, "a reference rendered in a nested parse before/without its definition in the same env would stay literal text instead of becoming a footnote_reference"),
}


def _literal_kw(call: ast.Call, lib: FunctionInfo, name: str):
    """effective literal value of a keyword option (keyword given, else the library default)"""
    v = kwarg(call, name)
    if v is None:
        a = lib.node.args
        for arg, dflt in zip(a.kwonlyargs, a.kw_defaults):
            if arg.arg == name and isinstance(dflt, ast.Constant):
                return dflt.value
        raise Unsupported(f"option {name} of {lib.qualname} has no literal default")
    if isinstance(v, ast.Constant):
        return v.value
    raise Unsupported(f"option {name} is not a literal: {short(v, 40)}")


def _ruler_insertions(lib: FunctionInfo, rule_name: str):
    """[(kind, anchor expr, call)] for ``md.inline.ruler.after/before(anchor, rule_name, ...)`` in a plugin."""
    out = []
    for n in lib.local_nodes():
        if isinstance(n, ast.Call) and isinstance(n.func, ast.Attribute) and n.func.attr in ("after", "before") and (dotted(n.func.value) or "").endswith("inline.ruler") and len(n.args) >= 2:
            if isinstance(n.args[1], ast.Constant) and n.args[1].value == rule_name:
                out.append((n.func.attr, n.args[0], n))
    return out


def _span_rule_order(corpus: Corpus, rep: Report, f: FunctionInfo, fn_use: ast.Call) -> None:
    """Both the footnote_ref rule and the bracketed-span rule of attrs_plugin start at ``[``; markdown-it runs
    the inline rules in chain order and the first match wins, so the span rule has to come later."""
    uses = []
    for n in f.local_nodes():
        if isinstance(n, ast.Call) and isinstance(n.func, ast.Attribute) and n.func.attr == "use" and n.args:
            tgt = f.module.resolve(dotted(n.args[0]) or "")
            if tgt.startswith("mdit_py_plugins.attrs") and tgt.endswith(".attrs_plugin"):
                uses.append((n, tgt))
    if not uses:
        rep.listed("C11.R5", f"{f.fq}|use(attrs_plugin)|none", f.site())
        return
    # the inline chain of markdown-it and where the footnote plugin puts footnote_ref
    pim = corpus.sibling("markdown_it/parser_inline.py")
    rep.saw_sibling(pim.rel)
    node = pim.const_nodes.get("_rules")
    if not isinstance(node, ast.List):
        raise Unsupported("markdown_it.parser_inline._rules is not a list literal")
    base = [e.elts[0].value for e in node.elts if isinstance(e, ast.Tuple) and e.elts and isinstance(e.elts[0], ast.Constant)]
    fn_tgt = f.module.resolve(dotted(fn_use.args[0]) or "")
    _m, fn_lib = _sibling_function(corpus, fn_tgt)
    ins = _ruler_insertions(fn_lib, "footnote_ref")
    fcfg = get_cfg(fn_lib)
    inline = _literal_kw(fn_use, fn_lib, "inline")
    chosen = []
    for kind, anchor, call in ins:
        g = fcfg.guards(fcfg.stmt_of(call))
        ok = True
        for t, pol in g:
            if _is_name(t, "inline"):
                ok = ok and (bool(inline) == pol)
            else:
                raise Unsupported(f"footnote plugin: insertion of footnote_ref guarded by `{short(t, 40)}`")
        if ok:
            chosen.append((kind, anchor))
    if len(chosen) != 1 or chosen[0][0] != "after" or not isinstance(chosen[0][1], ast.Constant) or chosen[0][1].value not in base:
        raise Unsupported("footnote plugin: cannot tell where footnote_ref is inserted in the inline chain")
    fr_anchor = chosen[0][1].value
    cfg = get_cfg(f)
    for use, tgt in uses:
        _m2, at_lib = _sibling_function(corpus, tgt)
        rep.saw_sibling(_m2.rel)
        key = f"{f.fq}|use(attrs_plugin)|span rule after footnote_ref"
        site = f.module.site(use)
        if not _literal_kw(use, at_lib, "spans"):
            rep.listed("C11.R5", f"{key}|spans off|{short(use, 50)}", site, "no span rule registered")
            continue
        sp_ins = _ruler_insertions(at_lib, "span")
        if len(sp_ins) != 1 or sp_ins[0][0] != "after" or not isinstance(sp_ins[0][1], ast.Name):
            raise Unsupported("attrs plugin: cannot tell where the span rule is inserted")
        where = _literal_kw(use, at_lib, sp_ins[0][1].id)
        later = cfg.dominates(cfg.stmt_of(fn_use), cfg.stmt_of(use)) and cfg.stmt_of(fn_use) is not cfg.stmt_of(use)
        if where == "footnote_ref":
            if later:
                rep.ok("C11.R5", key, site, "inserted directly after footnote_ref")
            else:
                raise Unsupported(f"{site}: attrs_plugin is not loaded after footnote_plugin")
        elif where in base:
            i, j = base.index(where), base.index(fr_anchor)
            if i > j or (i == j and not later and cfg.dominates(cfg.stmt_of(use), cfg.stmt_of(fn_use))):
                rep.ok("C11.R5", key, site, f"inserted after {where!r}, behind footnote_ref (after {fr_anchor!r})")
            elif i == j and not later:
                raise Unsupported(f"{site}: load order of attrs_plugin and footnote_plugin not understood")
            else:
                rep.violation(
                    "C11.R5",
                    key,
                    site,
                    f"attrs_plugin registers its `[text]{{attrs}}` span rule after {where!r}, i.e. before footnote_ref (inserted after {fr_anchor!r}): both rules start at `[` and the first match wins, so a reference followed by an attribute block, `[^a]{{.red}}`, becomes a span with the text '^a' - no footnote_reference, no number, no back-reference",
                )
        else:
            raise Unsupported(f"{site}: span_after={where!r} is not a rule of markdown-it's base inline chain")


@rule("C11.R5")
def r5_plugin_options(corpus: Corpus, rep: Report, tier: str):
    _use(corpus)
    rep.rule("C11.R5", "footnote_plugin is configured with inline=False, move_to_end=False, always_match_refs=True (effective values incl. library defaults); the `[text]{attrs}` span rule of attrs_plugin is inserted behind footnote_ref in markdown-it's inline chain")
    f = corpus.func("parsers.mdit:create_md_parser")
    rep.saw_function(f.fq)
    calls = []
    for n in f.local_nodes():
        if isinstance(n, ast.Call) and isinstance(n.func, ast.Attribute) and n.func.attr == "use" and n.args:
            tgt = f.module.resolve(dotted(n.args[0]) or "")
            if tgt.startswith("mdit_py_plugins.footnote") and tgt.endswith(".footnote_plugin"):
                calls.append((n, tgt))
    if not calls:
        raise AnchorMissing("no .use(footnote_plugin, ...) call in create_md_parser")
    for call, tgt in calls:
        lib_mod, lib = _sibling_function(corpus, tgt)
        rep.saw_sibling(lib_mod.rel)
        a = lib.node.args
        defaults: dict[str, object] = {}
        for arg, dflt in zip(a.kwonlyargs, a.kw_defaults):
            if isinstance(dflt, ast.Constant):
                defaults[arg.arg] = dflt.value
        pos = a.posonlyargs + a.args
        for arg, dflt in zip(pos[len(pos) - len(a.defaults):], a.defaults):
            if isinstance(dflt, ast.Constant):
                defaults[arg.arg] = dflt.value
        if any(k.arg is None for k in call.keywords) or len(call.args) > 1:
            raise Unsupported(f"{f.module.site(call)}: footnote_plugin options passed positionally or via **kwargs")
        rep.saw_call(f.module.site(call))
        for opt, (want, why) in REQUIRED_PLUGIN_OPTIONS.items():
            key = f"{f.fq}|use(footnote_plugin)|{opt}"
            v = kwarg(call, opt)
            if v is None:
                if opt not in defaults:
                    raise Unsupported(f"footnote_plugin has no option {opt!r} in the installed library")
                got, how = defaults[opt], "library default"
            elif isinstance(v, ast.Constant):
                got, how = v.value, "keyword"
            else:
                raise Unsupported(f"{f.module.site(call)}: option {opt} is not a literal: {short(v, 40)}")
            if got is want:
                rep.ok("C11.R5", key, f.module.site(call), f"{opt}={got} ({how})")
            else:
                rep.violation("C11.R5", key, f.module.site(call), f"footnote_plugin runs with {opt}={got} ({how}), required {want}: {why}")
    _span_rule_order(corpus, rep, f, calls[0][0])
    rep.expect_min("C11.R5", 3, "three options of the one footnote_plugin use")


# ---------------------------------------------------------------------------
# R7 - settings plumbing renderer -> transforms

SETTING_PREFIX = "myst_footnote_"


def _setting_reads(fi: FunctionInfo) -> list[ast.Attribute]:
    out = []
    for n in fi.local_nodes():
        if isinstance(n, ast.Attribute) and isinstance(n.ctx, ast.Load) and n.attr.startswith(SETTING_PREFIX):
            b_ = _deref(fi, n.value) if isinstance(n.value, ast.Name) and n.value.id not in fi.params else n.value
            if isinstance(b_, ast.Attribute) and b_.attr in OPTION_HOLDERS:
                out.append(n)
    return out


def _self_attr_read(e: ast.AST) -> str | None:
    """name of the parser attribute read by ``self.x`` / ``getattr(self, "x", ...)`` / ``self.__dict__[...]``"""
    if isinstance(e, ast.Attribute) and _is_name(e.value, "self") and isinstance(e.ctx, ast.Load):
        return e.attr
    if isinstance(e, ast.Call) and dotted(e.func) == "getattr" and len(e.args) >= 2 and _is_name(e.args[0], "self") and isinstance(e.args[1], ast.Constant):
        return str(e.args[1].value)
    return None


def _config_from_parser_state(corpus: Corpus, pf: FunctionInfo, arg: ast.expr):
    """(node, attribute) if a value reaching ``arg`` is read from an attribute of the parser object that
    package code itself stores (a memo that survives the document); None otherwise."""
    owner_cls = pf.cls
    written: set[str] = set()
    if owner_cls is not None:
        for ci in corpus.mro(owner_cls):
            # class-level constants are not memos: only attributes stored through `self` count
            for m in ci.methods.values():
                for n in m.local_nodes():
                    if isinstance(n, ast.Attribute) and _is_name(n.value, "self") and isinstance(n.ctx, ast.Store):
                        written.add(n.attr)
                    if isinstance(n, ast.Call) and dotted(n.func) == "setattr" and len(n.args) >= 2 and _is_name(n.args[0], "self") and isinstance(n.args[1], ast.Constant):
                        written.add(str(n.args[1].value))
    seen: set[str] = set()
    work: list[ast.AST] = [arg]
    while work:
        e = work.pop()
        for x in ast.walk(e):
            a = _self_attr_read(x)
            if a is not None and a in written:
                return x, a
            if isinstance(x, ast.Call) and isinstance(x.func, ast.Attribute) and _is_name(x.func.value, "self") and owner_cls is not None:
                h = corpus.lookup_method(owner_cls, x.func.attr)
                if h is not None and h.fq != pf.fq:
                    stored_here = {n.attr for n in h.local_nodes() if isinstance(n, ast.Attribute) and _is_name(n.value, "self") and isinstance(n.ctx, ast.Store)}
                    for n in h.local_nodes():
                        a2 = _self_attr_read(n)
                        if a2 is not None and a2 in stored_here:
                            return x, a2
            if isinstance(x, ast.Name) and isinstance(x.ctx, ast.Load) and x.id not in seen and x.id not in pf.params:
                seen.add(x.id)
                for n in pf.local_nodes():
                    if isinstance(n, ast.Assign) and any(_is_name(t, x.id) for t in n.targets):
                        work.append(n.value)
                    elif isinstance(n, ast.AnnAssign) and _is_name(n.target, x.id) and n.value is not None:
                        work.append(n.value)
                    elif isinstance(n, ast.NamedExpr) and _is_name(n.target, x.id):
                        work.append(n.value)
    return None


def _config_handoff(corpus: Corpus, f: FunctionInfo, depth: int = 0):
    """(index of the parameter of ``f`` that becomes the renderer's configuration, problem | None).
    ``create_md_parser(config, renderer)`` stores its first parameter in options['myst_config']; a wrapper that
    may return a parser object kept between calls must refresh that option from its own parameter on every path."""
    if f.name == "create_md_parser" and f.cls is None:
        return 0, None
    if depth > 1 or f.is_lambda:
        return None, None
    inner = None
    for n in f.local_nodes():
        if isinstance(n, ast.Call) and isinstance(n.func, ast.Name) and n.args:
            t = corpus.find_function(f.module.resolve(n.func.id))
            if t is not None and t.fq != f.fq:
                i_, prob = _config_handoff(corpus, t, depth + 1)
                if i_ is not None and len(n.args) > i_ and isinstance(n.args[i_], ast.Name) and n.args[i_].id in f.params:
                    inner = (f.params.index(n.args[i_].id), prob, n)
    if inner is None:
        return None, None
    pi, prob, call = inner
    pname = f.params[pi]
    # can an object created by an earlier call be returned?  (a value read from module-level / attribute state)
    kept = []
    for n in f.local_nodes():
        if isinstance(n, ast.Return) and n.value is not None:
            v = _deref(f, n.value) if isinstance(n.value, ast.Name) else n.value
            roots = [x for x in ast.walk(v) if isinstance(x, ast.Name) and isinstance(x.ctx, ast.Load) and (x.id in f.module.const_nodes)]
            if roots and not (isinstance(v, ast.Call) and v is call):
                kept.append(n)
    if kept:
        cfg = get_cfg(f)
        refresh = [n for n in f.local_nodes() if isinstance(n, ast.Assign) and any(isinstance(t, ast.Subscript) and isinstance(t.slice, ast.Constant) and t.slice.value == "myst_config" for t in n.targets) and _is_name(n.value, pname)]
        refresh += [n for n in f.local_nodes() if isinstance(n, ast.Expr) and isinstance(n.value, ast.Call) and isinstance(n.value.func, ast.Attribute) and n.value.func.attr == "update" and any(isinstance(d_, ast.Dict) and any(isinstance(k_, ast.Constant) and k_.value == "myst_config" and _is_name(v_, pname) for k_, v_ in zip(d_.keys, d_.values)) for d_ in n.value.args)]
        if not any(cfg.postdominates(cfg.stmt_of(r_), ENTRY) for r_ in refresh):
            prob = prob or (
                f"{f.qualname} can return a parser object kept from an earlier call without storing the current configuration in its options['myst_config'] on every path: "
                "a later document is rendered with the configuration (footnote_sort, footnote_transition, ...) of the document the parser was created for"
            )
    return pi, prob


def _handoff_arg(corpus: Corpus, pf: FunctionInfo, call: ast.Call) -> ast.expr:
    t = corpus.find_function(pf.module.resolve(dotted(call.func) or ""))
    i_, _p = _config_handoff(corpus, t)
    return call.args[i_]


@rule("C11.R7")
def r7_settings_plumbing(corpus: Corpus, rep: Report, tier: str):
    _use(corpus)
    rep.rule("C11.R7", "every myst_footnote_* setting a transform reads is written unconditionally during render from the same-named config field; each front end builds the configuration from the document at hand, never from a memo on the parser object")
    tm = corpus.mod(TRANS)
    reads: dict[str, list[tuple[FunctionInfo, ast.AST]]] = {}
    for fi in tm.functions.values():
        if fi.is_lambda:
            continue
        for n in _setting_reads(fi):
            reads.setdefault(n.attr, []).append((fi, n))
        if fi.cls is None or fi.name != "apply":
            continue
        for n in fi.local_nodes():
            direct = isinstance(n, ast.Attribute) and isinstance(n.ctx, ast.Load) and n.attr.startswith("footnote_") and not isinstance(parent(n), ast.Attribute)
            if direct or (isinstance(n, ast.Call) and (dotted(n.func) == "getattr" or isinstance(n.func, ast.Name) or (isinstance(n.func, ast.Attribute) and _is_name(n.func.value, "self")))):
                srcs = _resolve_setting(fi, n)
                got = sorted({n_ for k_, n_, _x in srcs if k_ == "setting" and n_.startswith(SETTING_PREFIX)})
                for name_ in got:
                    reads.setdefault(name_, []).append((fi, n))
                for k_, text_, x_ in srcs:
                    if k_ == "foreign" and "footnote" in text_:
                        rep.violation(
                            "C11.R7",
                            f"{fi.fq}|footnote option read from the document settings|{text_}",
                            fi.module.site(n),
                            f"{fi.qualname} takes the footnote option from `{text_}` on some path, a configuration object shared by the whole build, instead of document.settings.{got[0] if got else 'myst_footnote_*'} which the renderer writes per document: a front-matter footnote_sort/footnote_transition is ignored there",
                        )
    cfgcls = corpus.cls("config.main:MdParserConfig")
    fields = {st.target.id for st in cfgcls.node.body if isinstance(st, ast.AnnAssign) and isinstance(st.target, ast.Name)}
    render = corpus.func(f"{BASE}:DocutilsRenderer.render")
    called = {n.func.attr for n in render.local_nodes() if isinstance(n, ast.Call) and isinstance(n.func, ast.Attribute) and _is_name(n.func.value, "self")} | {"render"}
    writers: dict[str, list[tuple[FunctionInfo, ast.Assign]]] = {}
    for fi in corpus.all_functions():
        if fi.is_lambda:
            continue
        for n in fi.local_nodes():
            if isinstance(n, ast.Assign) and len(n.targets) == 1:
                t = n.targets[0]
                if isinstance(t, ast.Attribute) and t.attr.startswith(SETTING_PREFIX) and isinstance(t.value, ast.Attribute) and t.value.attr in OPTION_HOLDERS:
                    writers.setdefault(t.attr, []).append((fi, n))
    for name, rs in sorted(reads.items()):
        fi0, n0 = rs[0]
        key = f"setting {name}|written from md_config.{name[len('myst_'):]}"
        ws = writers.get(name, [])
        if not ws:
            rep.violation("C11.R7", key, fi0.module.site(n0), f"{fi0.qualname} reads the per-document option {name} but the renderer never stores it: the transform falls back to its default (or fails) whatever the document's configuration says")
            continue
        problems = []
        w_holders = {w.targets[0].value.attr for _wf, w in ws}
        for rfi, rn in rs:
            h_ = _holder_of(rfi, rn)
            if h_ is not None and h_ not in w_holders:
                problems.append(f"{rfi.qualname} reads {name} from the document's `{h_}` object but the renderer stores it on `{'/'.join(sorted(w_holders))}`: the stored per-document value is never seen")
        for wfi, w in ws:
            v = w.value
            v = _deref(wfi, v) if isinstance(v, ast.Name) else v
            while isinstance(v, ast.Call) and dotted(v.func) == "bool" and len(v.args) == 1:
                v = v.args[0]
            src_ok = isinstance(v, ast.Attribute) and isinstance(v.value, ast.Attribute) and v.value.attr == "md_config"
            if not src_ok:
                fields_in = [x for x in ast.walk(v) if isinstance(x, ast.Attribute) and isinstance(x.value, ast.Attribute) and x.value.attr == "md_config"]
                if fields_in and isinstance(v, (ast.BoolOp, ast.IfExp)):
                    problems.append(f"{name} is stored as `{short(v, 70)}`: another source can override md_config.{fields_in[0].attr}, so the document's own configuration (e.g. a False from front matter or conf.py) does not always reach the transforms")
                    continue
                raise Unsupported(f"{wfi.module.site(w)}: settings.{name} written from `{short(v, 50)}` (not a config field)")
            if "myst_" + v.attr != name:
                problems.append(f"settings.{name} is written from md_config.{v.attr}")
            elif v.attr not in fields:
                problems.append(f"md_config.{v.attr} is not a field of MdParserConfig")
            if not (wfi.cls is not None and wfi.cls.fq == render.cls.fq and wfi.name in called):
                raise Unsupported(f"{wfi.module.site(w)}: settings.{name} is written in {wfi.fq}; its place in the render sequence is not understood")
            cfg = get_cfg(wfi)
            if not cfg.postdominates(cfg.stmt_of(w), ENTRY):
                problems.append(f"the write in {wfi.qualname} is not executed on every path of DocutilsRenderer.render")
        if problems:
            rep.violation("C11.R7", key, ws[0][0].module.site(ws[0][1]), "; ".join(problems) + f" (read by {', '.join(sorted({r[0].qualname for r in rs}))})")
        else:
            rep.ok("C11.R7", key, ws[0][0].module.site(ws[0][1]), f"read by {', '.join(sorted({r[0].qualname for r in rs}))}")
    # the configuration handed to the renderer is made from this document's settings / front matter,
    # never taken back from the parser object (which outlives the document)
    for fq in ("parsers.docutils_:Parser.parse", "parsers.sphinx_:MystParser.parse"):
        pf = corpus.func(fq)
        rep.saw_function(pf.fq)
        calls = []
        stale_parser = None
        for n in pf.local_nodes():
            if isinstance(n, ast.Call) and n.args and isinstance(n.func, (ast.Name, ast.Attribute)):
                tgt = corpus.find_function(pf.module.resolve(dotted(n.func) or "")) if isinstance(n.func, ast.Name) else None
                if tgt is None:
                    continue
                arg_i, problem = _config_handoff(corpus, tgt)
                if arg_i is not None and len(n.args) > arg_i:
                    calls.append((n, n.args[arg_i]))
                    stale_parser = stale_parser or problem
        if len(calls) != 1:
            raise Unsupported(f"{pf.qualname}: expected one call handing the configuration to create_md_parser, found {len(calls)}")
        key = f"{pf.fq}|configuration is built from this document"
        if stale_parser:
            rep.violation("C11.R7", key, pf.module.site(calls[0][0]), stale_parser)
            continue
        calls = [calls[0][0]]
        memo = _config_from_parser_state(corpus, pf, _handoff_arg(corpus, pf, calls[0]))
        if memo is None:
            rep.ok("C11.R7", key, pf.module.site(calls[0]))
        else:
            node, attr = memo
            rep.violation(
                "C11.R7",
                key,
                pf.module.site(node),
                f"the configuration given to create_md_parser can come from `self.{attr}`, an attribute the parser writes itself and keeps between documents: a later document parsed with the same parser object is rendered with the footnote_sort/footnote_transition (and every other) setting of an earlier one",
            )
    rep.expect_min("C11.R7", 4, "myst_footnote_sort, myst_footnote_transition, two front ends")


# ---------------------------------------------------------------------------
# R2 - reference and definition classify the label alike and feed matching registries


def _classifier(fi: FunctionInfo):
    """(if_stmt, predicate name, manual_edge, auto_edge): the one branch on a digit predicate of the label."""
    found = []
    for n in fi.local_nodes():
        if not isinstance(n, ast.If):
            continue
        ctx, t, pol = _strip_predicate(fi, n.test)
        if isinstance(t, ast.Call) and isinstance(t.func, ast.Attribute) and not t.args and not t.keywords and _is_label(ctx, t.func.value):
            found.append((n, t.func.attr, pol))
        elif _decides_membership(ctx, t) or any(_decides_membership(ctx, a) for a, _p in facts(n.test, True)) or any(_decides_membership(ctx, a) for a, _p in facts(n.test, False)):
            continue  # the duplicate test, not a classification
        elif any(isinstance(x, ast.expr) and not isinstance(x, ast.Compare) and _is_label_use_in_call(fi, x) for x in ast.walk(n.test)):
            raise Unsupported(f"{fi.module.site(n)}: label classified by `{short(n.test, 60)}` (not a plain str predicate of the label)")
    if not found:
        raise Unsupported(f"{fi.qualname}: no branch on a predicate of the label")
    preds = {p for _, p, _ in found}
    if len(preds) != 1:
        raise Unsupported(f"{fi.qualname}: the label is classified by different predicates in one function: {sorted(preds)}")
    found.sort(key=lambda x: x[0].lineno)
    n, pred, pol = found[0]
    if pred not in DIGIT_PREDICATES:
        raise Unsupported(f"{fi.module.site(n)}: label predicate .{pred}() is not one of {sorted(DIGIT_PREDICATES)}")
    # the label is never re-bound, so all these branches agree on one run: a manual path takes the
    # manual edge of each and none of the auto edges
    man = [("T" if pol_ else "F", n_) for n_, _, pol_ in found]
    auto = [("F" if pol_ else "T", n_) for n_, _, pol_ in found]
    return n, pred, Side("manual", man, auto), Side("auto", auto, man)


class Side:
    """The CFG paths of one classification: pass at least one of ``must`` edges, none of ``avoid``."""

    def __init__(self, name: str, must: list, avoid: list):
        self.name, self.must, self.avoid = name, must, avoid


def _strip_predicate(fi: FunctionInfo, t: ast.expr, depth: int = 0):
    """(context function, core expression, polarity) of a test after removing ``not``, local aliases
    and value-only package helpers that receive the label."""
    pol = True
    ctx = fi
    for _ in range(8):
        if isinstance(t, ast.Name):
            t2 = _deref(ctx, t)
            if t2 is t:
                break
            t = t2
        elif isinstance(t, ast.UnaryOp) and isinstance(t.op, ast.Not):
            t, pol = t.operand, not pol
        elif isinstance(t, ast.Call) and _is_label_use_in_call(ctx, t) and not (isinstance(t.func, ast.Attribute) and _is_label(ctx, t.func.value)):
            entered = _enter_helper(ctx, t, depth)
            if entered is None:
                break
            ctx, t = entered
            depth += 1
        else:
            break
    return ctx, t, pol


def _decides_membership(ctx: FunctionInfo, t: ast.expr) -> bool:
    return any(_membership_polarity(a, p, ctx) is not None for a, p in facts(t, True))


def _is_label_use_in_call(fi: FunctionInfo, x: ast.expr) -> bool:
    """a call that takes the label as receiver or argument (regex match, helper predicate ...)"""
    if not isinstance(x, ast.Call):
        return False
    ops = list(x.args) + [k.value for k in x.keywords]
    if isinstance(x.func, ast.Attribute):
        ops.append(x.func.value)
    return any(_is_label(fi, o) for o in ops)


def _expect(rep: Report, fi: FunctionInfo, ev: Events, kind: str, sd: "Side", want: set[int], side: str, what: str, why: str) -> None:
    got = ev.paths(kind, ENTRY, EXIT, avoid=sd.avoid, must=sd.must)
    key = f"{fi.fq}|{side}|{what}"
    nodes = ev.nodes(kind)
    site = fi.module.site(nodes[0]) if nodes else fi.module.site(sd.must[0][1])
    if not got:
        raise Unsupported(f"{fi.qualname}: the {side} branch is unreachable in the CFG")
    if got == want:
        rep.ok("C11.R2", key, site, f"count {_fmt(got)}")
    else:
        rep.violation("C11.R2", key, site, f"on {side} paths `{what}` happens {_fmt(got)} time(s), required {_fmt(want)}: {why}")


def _ref_events(fi: FunctionInfo, n: ast.AST, var: str):
    """event kinds of one AST node of the reference renderer (``var`` = the footnote_reference node)"""
    if _item_store(n, var, "auto") is not None:
        yield "auto_attr"
    v = _item_store(n, var, "refname")
    if v is not None:
        yield "refname"
        yield "refname_label" if _is_label(fi, v) else "refname_other"
    if _method_call_on_arg(n, "note_autofootnote_ref", var):
        yield "note_autoref"
    if _method_call_on_arg(n, "note_footnote_ref", var):
        yield "note_ref"
    for other in ("note_footnote", "note_autofootnote", "note_symbol_footnote_ref", "note_citation_ref"):
        if _method_call_on_arg(n, other, var):
            yield "wrong_registry"
    c = _child_added(n, var)
    if c is not None:
        if isinstance(c, ast.Call) and fi.module.resolve(dotted(c.func) or "") == "docutils.nodes.Text" and len(c.args) == 1 and _is_label(fi, c.args[0]):
            yield "text_label"
        else:
            yield "other_child"


def _def_events(fi: FunctionInfo, n: ast.AST, var: str):
    """event kinds of one AST node of the definition renderer (``var`` = the footnote node)"""
    if _item_store(n, var, "auto") is not None:
        yield "auto_attr"
    if isinstance(n, ast.Call) and isinstance(n.func, ast.Attribute) and n.func.attr == "append" and len(n.args) == 1:
        r = n.func.value
        if isinstance(r, ast.Subscript) and _is_name(r.value, var) and isinstance(r.slice, ast.Constant) and r.slice.value == "names":
            yield "names"
            yield "names_label" if _is_label(fi, n.args[0]) else "names_other"
    v = _item_store(n, var, "names")
    if v is not None:
        yield "names"
        yield "names_label" if isinstance(v, ast.List) and len(v.elts) == 1 and _is_label(fi, v.elts[0]) else "names_other"
    if _method_call_on_arg(n, "note_footnote", var):
        yield "note_fn"
    if _method_call_on_arg(n, "note_autofootnote", var):
        yield "note_autofn"
    if _method_call_on_arg(n, "note_explicit_target", var):
        yield "note_target"
    for other in ("note_footnote_ref", "note_autofootnote_ref", "note_symbol_footnote", "note_citation", "note_implicit_target"):
        if _method_call_on_arg(n, other, var):
            yield "wrong_registry"
    c = _child_added(n, var)
    if c is not None:
        if isinstance(c, ast.Call) and fi.module.resolve(dotted(c.func) or "") == "docutils.nodes.label" and len(c.args) >= 2 and _is_label(fi, c.args[1]):
            yield "label_child"
        elif isinstance(c, ast.Call) and fi.module.resolve(dotted(c.func) or "") == "docutils.nodes.label":
            yield "label_other"
    if isinstance(n, ast.Call) and isinstance(n.func, ast.Attribute) and n.func.attr == "render_children" and _is_name(n.func.value, "self"):
        yield "body"


def _scan(fi: FunctionInfo, var: str, gen, depth: int = 0) -> Events:
    """Events of ``fi`` about the node ``var``; a package helper that receives the node is followed:
    what it does on every one of its paths is charged to the call site (its own order is kept in ``inner``)."""
    ev = Events(fi)
    ev.inner = {}
    for n in fi.local_nodes():
        for kind in gen(fi, n, var):
            ev.add(kind, n)
        if isinstance(n, ast.Call) and any(_is_name(a, var) for a in [*n.args, *[k.value for k in n.keywords]]):
            if isinstance(n.func, ast.Attribute) and not _is_name(n.func.value, "self"):
                continue  # a method of another object (document.note_*, list.append ...): judged above
            h = _resolve_helper(fi, n)
            if h is None or h.is_lambda:
                continue
            if depth >= 2 or h.fq == fi.fq:
                raise Unsupported(f"{fi.module.site(n)}: helper chain through {h.qualname} too deep")
            binding = _bind_args(h, n)
            pvars = [p_ for p_, a in binding.items() if _is_name(a, var)]
            if len(pvars) != 1:
                raise Unsupported(f"{fi.module.site(n)}: node passed {len(pvars)} times to {h.qualname}")
            h.__dict__.setdefault("_c11_label_params", set()).update(p_ for p_, a in binding.items() if _is_label(fi, a))
            if any(isinstance(x, ast.If) and _is_label_use_in_call(h, x.test) for x in h.local_nodes()) or any(isinstance(x, ast.If) and any(isinstance(c, ast.Call) and _is_label_use_in_call(h, c) for c in ast.walk(x.test)) for x in h.local_nodes()):
                raise Unsupported(f"{fi.module.site(n)}: helper {h.qualname} branches on the label itself; the manual/auto classification is only followed in the render method")
            hev = _scan(h, pvars[0], gen, depth + 1)
            for kind, nodes_ in hev.ev.items():
                c = hev.count(kind, ENTRY)
                if len(c) != 1:
                    raise Unsupported(f"{fi.module.site(n)}: helper {h.qualname} does `{kind}` {_fmt(c)} times depending on its path")
                for _ in range(c.pop()):
                    ev.add(kind, n)
                ev.inner[(kind, id(n))] = (hev, nodes_)
    return ev


def _precedes(ev: Events, kind_a: str, a: ast.AST, kind_b: str, b: ast.AST) -> bool:
    """event ``a`` happens before event ``b`` on every path that reaches ``b``"""
    if a is b:
        ia, ib = ev.inner.get((kind_a, id(a))), ev.inner.get((kind_b, id(b)))
        if ia is None or ib is None:
            return False
        hev = ia[0]
        return all(any(_precedes(hev, kind_a, x, kind_b, y) for x in ia[1]) for y in ib[1])
    return ev.cfg.dominates(ev.cfg.stmt_of(a), ev.cfg.stmt_of(b)) and ev.cfg.stmt_of(a) is not ev.cfg.stmt_of(b)


def _scan_ref(fi: FunctionInfo) -> tuple[Events, str]:
    var = _node_var(fi, "docutils.nodes.footnote_reference")
    return _scan(fi, var, _ref_events), var


def _scan_def(fi: FunctionInfo) -> tuple[Events, str]:
    var = _node_var(fi, "docutils.nodes.footnote")
    return _scan(fi, var, _def_events), var


@rule("C11.R2")
def r2_predicate_and_registries(corpus: Corpus, rep: Report, tier: str):
    _use(corpus)
    rep.rule("C11.R2", "reference and definition branch on the same digit predicate of the same label and feed the matching registries on every path")
    ref, dfn = corpus.func(REF_FN), corpus.func(DEF_FN)
    rep.saw_function(ref.fq)
    rep.saw_function(dfn.fq)
    r_if, r_pred, r_man, r_auto = _classifier(ref)
    d_if, d_pred, d_man, d_auto = _classifier(dfn)
    key = "manual/auto predicate|reference vs definition"
    if r_pred == d_pred:
        rep.ok("C11.R2", key, ref.module.site(r_if), f"label.{r_pred}() on both sides")
    else:
        rep.violation("C11.R2", key, ref.module.site(r_if), f"the reference classifies its label with .{r_pred}() but the definition with .{d_pred}(): a label on which they differ (e.g. '²') is manual on one side and auto-numbered on the other, so the reference shows a different number than the footnote or never resolves")

    ev, _ = _scan_ref(ref)
    W = "a manually numbered reference (rST [1]_) carries its number as text and is resolved by name only; an auto-numbered one (rST [#x]_) carries auto=1, no text, and is listed in autofootnote_refs so SortFootnotes/docutils see it"
    _expect(rep, ref, ev, "text_label", r_man, {1}, "manual", "reference += Text(label)", W)
    _expect(rep, ref, ev, "auto_attr", r_man, {0}, "manual", "reference['auto'] = ...", W)
    _expect(rep, ref, ev, "note_autoref", r_man, {0}, "manual", "note_autofootnote_ref(reference)", W)
    _expect(rep, ref, ev, "text_label", r_auto, {0}, "auto", "reference += Text(label)", W)
    _expect(rep, ref, ev, "other_child", r_auto, {0}, "auto", "reference += <other child>", "docutils appends the assigned number to the reference; any other child shows up next to it")
    _expect(rep, ref, ev, "other_child", r_man, {0}, "manual", "reference += <other child>", "the reference must show exactly its label")
    _expect(rep, ref, ev, "auto_attr", r_auto, {1}, "auto", "reference['auto'] = ...", W)
    _expect(rep, ref, ev, "note_autoref", r_auto, {1}, "auto", "note_autofootnote_ref(reference)", W)
    for side, edge in (("manual", r_man), ("auto", r_auto)):
        _expect(rep, ref, ev, "note_ref", edge, {1}, side, "note_footnote_ref(reference)", "docutils resolves labelled references through document.footnote_refs[refname]")
        _expect(rep, ref, ev, "refname_label", edge, {1}, side, "reference['refname'] = label", "refname must equal the definition's names[0], i.e. the unmodified label")
        _expect(rep, ref, ev, "refname_other", edge, {0}, side, "reference['refname'] = <not the label>", "refname must equal the definition's names[0], i.e. the unmodified label")
        _expect(rep, ref, ev, "wrong_registry", edge, {0}, side, "reference noted in a definition/other registry", "footnote references belong in footnote_refs/autofootnote_refs only")
    cfg = get_cfg(ref)
    for nr in ev.nodes("note_ref"):
        key = f"{ref.fq}|refname stored before note_footnote_ref"
        if any(_precedes(ev, "refname", s, "note_ref", nr) for s in ev.nodes("refname")):
            rep.ok("C11.R2", key, ref.module.site(nr))
        else:
            rep.violation("C11.R2", key, ref.module.site(nr), "note_footnote_ref reads reference['refname']; it is called on a path where refname has not been stored yet")

    ev, _ = _scan_def(dfn)
    W = "a manually numbered footnote (rST .. [1]) gets its label child now and goes to document.footnotes; an auto-numbered one (rST .. [#x]) gets auto=1, no label, and goes to document.autofootnotes where docutils numbers it"
    _expect(rep, dfn, ev, "label_child", d_man, {1}, "manual", "footnote += label('', label)", W)
    _expect(rep, dfn, ev, "note_fn", d_man, {1}, "manual", "note_footnote(footnote)", W)
    _expect(rep, dfn, ev, "auto_attr", d_man, {0}, "manual", "footnote['auto'] = ...", W)
    _expect(rep, dfn, ev, "note_autofn", d_man, {0}, "manual", "note_autofootnote(footnote)", W)
    _expect(rep, dfn, ev, "label_child", d_auto, {0}, "auto", "footnote += label('', label)", W)
    _expect(rep, dfn, ev, "note_fn", d_auto, {0}, "auto", "note_footnote(footnote)", W)
    _expect(rep, dfn, ev, "auto_attr", d_auto, {1}, "auto", "footnote['auto'] = ...", W)
    _expect(rep, dfn, ev, "note_autofn", d_auto, {1}, "auto", "note_autofootnote(footnote)", W)
    for side, edge in (("manual", d_man), ("auto", d_auto)):
        _expect(rep, dfn, ev, "label_other", edge, {0}, side, "footnote += label(<not the label>)", "a numeric label keeps its number")
        _expect(rep, dfn, ev, "names_label", edge, {1}, side, "footnote['names'] gets the label", "names[0] must equal the references' refname, i.e. the unmodified label")
        _expect(rep, dfn, ev, "names_other", edge, {0}, side, "footnote['names'] gets <not the label>", "names[0] must equal the references' refname, i.e. the unmodified label")
        _expect(rep, dfn, ev, "note_target", edge, {1}, side, "note_explicit_target(footnote, ...)", "the name table entry is what docutils uses to skip taken numbers and to report clashes")
        _expect(rep, dfn, ev, "body", edge, {1}, side, "self.render_children(token)", "the footnote text must be rendered exactly once")
        _expect(rep, dfn, ev, "wrong_registry", edge, {0}, side, "footnote noted in a reference/other registry", "footnote definitions belong in footnotes/autofootnotes only")
    # the collector (and docutils) read children[0] as the label: nothing that can add a child to the footnote
    # - note_explicit_target attaches docutils' duplicate-name system message to it, the body its paragraphs -
    # may run before the label is added
    for kind_, text_ in (("note_target", "note_explicit_target(footnote, footnote)"), ("body", "self.render_children(token)")):
        key = f"{dfn.fq}|manual|label is the first child: added before {text_}"
        bad = None
        for x in ev.nodes(kind_):
            if any(l_ is x for l_ in ev.nodes("label_child")):
                if not _precedes(ev, "label_child", x, kind_, x):
                    bad = x
                continue
            got = ev.paths("label_child", ENTRY, ev.cfg.stmt_of(x), avoid=d_man.avoid)
            if 0 in got:
                bad = x
        if bad is None:
            rep.ok("C11.R2", key, dfn.module.site(ev.nodes(kind_)[0]) if ev.nodes(kind_) else dfn.site())
        else:
            rep.violation("C11.R2", key, dfn.module.site(bad), f"on manual paths `{text_}` runs before the label node is added: whatever it appends to the footnote (docutils' 'Duplicate ... target name' system message when the number is also a heading/target name, or the footnote text) becomes children[0], so CollectFootnotes sorts the definition by that text instead of its number and the footnote no longer starts with its label")
    cfg = get_cfg(dfn)
    for nt in ev.nodes("note_target"):
        key = f"{dfn.fq}|name stored before note_explicit_target"
        if any(_precedes(ev, "names", s, "note_target", nt) for s in ev.nodes("names")):
            rep.ok("C11.R2", key, dfn.module.site(nt))
        else:
            rep.violation("C11.R2", key, dfn.module.site(nt), "note_explicit_target registers footnote['names']; it is called on a path where the label has not been stored in names yet")
    rep.expect_min("C11.R2", 35, "1 predicate agreement + 17 reference-side + 21 definition-side path obligations on the pinned tree")


# ---------------------------------------------------------------------------
# R3 / R6 - the duplicate-definition path


# token types whose content is parsed only when the token is rendered (nested_render_text / run_directive); each entry
# is honoured only while the renderer still has the render_<type> method
LAZY_TOKEN_TYPES = ("fence", "colon_fence", "html_block", "substitution_block")

# string transformations that map different labels to the same value (case / whitespace / character folding)
FOLDING_METHODS = {"lower", "upper", "casefold", "title", "capitalize", "swapcase"}
FOLDING_FUNCTIONS = {
    "docutils.nodes.fully_normalize_name": "lower-cases and folds whitespace",
    "docutils.nodes.make_id": "lower-cases and replaces every non-alphanumeric run by a hyphen",
    "unicodedata.normalize": "folds canonically/compatibly equivalent characters",
}
# not tabled on purpose: strip()/whitespace_normalize_name() are the identity on footnote labels (they contain no
# white space), replace()/translate()/re.sub() depend on their arguments -> outside the understood subset


def _folding(fi: FunctionInfo, e: ast.AST) -> str | None:
    """description if ``e`` is a call of a known non-injective string transformation"""
    if isinstance(e, ast.Call):
        if isinstance(e.func, ast.Attribute) and e.func.attr in FOLDING_METHODS and not (dotted(e.func.value) or "").startswith(("re", "nodes")):
            return f".{e.func.attr}()"
        r = fi.module.resolve(dotted(e.func) or "")
        if r in FOLDING_FUNCTIONS:
            return f"{r.rsplit('.', 1)[-1]}() ({FOLDING_FUNCTIONS[r]})"
    return None


def _is_label_form(fi: FunctionInfo, e: ast.expr, depth: int = 0) -> bool:
    """the label itself, or a known folding transformation applied to it (``label.lower()``, ``normalize(label)``)"""
    e = _deref(fi, e) if isinstance(e, ast.Name) and not _is_label(fi, e) else e
    if _is_label(fi, e):
        return True
    if depth < 3 and _folding(fi, e) is not None:
        ops = ([e.func.value] if isinstance(e.func, ast.Attribute) else []) + list(e.args)
        return any(_is_label_form(fi, o, depth + 1) for o in ops)
    return False


def _is_member_cmp(fi: FunctionInfo, e: ast.AST, ops=(ast.In,)) -> bool:
    return isinstance(e, ast.Compare) and len(e.ops) == 1 and isinstance(e.ops[0], ops) and (_is_label_form(fi, e.left) or (isinstance(e.ops[0], ast.Eq) and _is_label_form(fi, e.comparators[0])))


def _membership_polarity(atom: ast.expr, pol: bool, fi: FunctionInfo):
    """If ``atom`` (holding with polarity ``pol``) decides 'label is a member of C': (is_member, compare node)."""
    cmp_ = None
    # `label in A or label in B` == label in A + B (all operands positive memberships)
    if isinstance(atom, ast.BoolOp) and isinstance(atom.op, ast.Or) and all(_is_member_cmp(fi, v) for v in atom.values):
        return pol, atom
    # look-up forms: isinstance(T.get(key), nodes.footnote) / T.get(key) is not None / T[key] ... with key = (a folding of) the label
    look = atom
    lpol = pol
    if isinstance(look, ast.Compare) and len(look.ops) == 1 and isinstance(look.ops[0], (ast.Is, ast.IsNot)) and isinstance(look.comparators[0], ast.Constant) and look.comparators[0].value is None:
        lpol = pol if isinstance(look.ops[0], ast.IsNot) else not pol
        look = look.left
    elif isinstance(look, ast.Call) and dotted(look.func) == "isinstance" and len(look.args) == 2:
        look = look.args[0]
    else:
        look = None
    if look is not None:
        look = _deref(fi, look) if isinstance(look, ast.Name) else look
        keyx = None
        if isinstance(look, ast.Call) and isinstance(look.func, ast.Attribute) and look.func.attr == "get" and look.args:
            keyx = look.args[0]
        elif isinstance(look, ast.Subscript):
            keyx = look.slice
        if keyx is not None and _is_label_form(fi, keyx):
            return lpol, atom
    if isinstance(atom, ast.Call) and dotted(atom.func) == "any" and len(atom.args) == 1 and isinstance(atom.args[0], (ast.GeneratorExp, ast.ListComp)):
        e0 = atom.args[0].elt
        if isinstance(e0, ast.BoolOp) and isinstance(e0.op, ast.Or) and all(_is_member_cmp(fi, v, (ast.In, ast.Eq)) for v in e0.values):
            return pol, e0
    if isinstance(atom, ast.Compare) and len(atom.ops) == 1 and isinstance(atom.ops[0], (ast.In, ast.NotIn)) and _is_label_form(fi, atom.left):
        cmp_ = atom
    elif isinstance(atom, ast.Call) and dotted(atom.func) == "any" and len(atom.args) == 1 and isinstance(atom.args[0], (ast.GeneratorExp, ast.ListComp)):
        e = atom.args[0].elt
        if isinstance(e, ast.Compare) and len(e.ops) == 1 and isinstance(e.ops[0], (ast.In, ast.NotIn, ast.Eq)) and (_is_label_form(fi, e.left) or _is_label_form(fi, e.comparators[0])):
            cmp_ = e
            if isinstance(e.ops[0], ast.NotIn):
                raise Unsupported("any(label not in ...) as duplicate test")
            return pol, cmp_
    if cmp_ is None:
        return None
    return (pol if isinstance(cmp_.ops[0], ast.In) else not pol), cmp_


def _duplicate_test(fi: FunctionInfo):
    """(if_stmt, duplicate_edge, test expression) of the one membership test on the label."""
    found = []
    for n in fi.local_nodes():
        if not isinstance(n, ast.If):
            continue
        for edge in ("T", "F"):
            for atom0, pol0 in facts(n.test, edge == "T"):
                ctx, core, p = _strip_predicate(fi, atom0)
                pol1 = pol0 if p else not pol0
                for atom, pol in facts(core, pol1):
                    mp = _membership_polarity(atom, pol, ctx)
                    if mp is not None and mp[0]:
                        found.append((n, (edge, n), atom, ctx))
    if len(found) != 1:
        mentions = [n for n in fi.local_nodes() if isinstance(n, ast.Compare) and any(isinstance(o, (ast.In, ast.NotIn)) for o in n.ops)]
        raise Unsupported(f"{fi.qualname}: expected exactly one branch taken when the label is already defined, found {len(found)} ({len(mentions)} membership tests)")
    return found[0]


@rule("C11.R3")
def r3_duplicate_path(corpus: Corpus, rep: Report, tier: str):
    _use(corpus)
    rep.rule("C11.R3", "duplicate definition: exactly one [ref.footnote] warning, then return before any registry call, node construction or rendering")
    fi = corpus.func(DEF_FN)
    n_if, edge, _, _ = _duplicate_test(fi)
    ev = Events(fi)
    for n in fi.local_nodes():
        if isinstance(n, ast.Call):
            d = dotted(n.func) or ""
            last = d.rsplit(".", 1)[-1]
            if last == "create_warning":
                ev.add("warning", n)
            elif last.startswith("note_") or last in ("set_id", "render_children", "current_node_context", "nested_render_text"):
                ev.add("effect", n)
            elif fi.module.resolve(d) == "docutils.nodes.footnote":
                ev.add("effect", n)
            elif last in ("warning", "error", "info", "severe") and "reporter" in d:
                ev.add("warning", n)
    site = fi.module.site(n_if)
    cw = ev.count("warning", edge)
    ce = ev.count("effect", edge)
    if not cw:
        raise Unsupported("duplicate branch has no normal exit")
    key = f"{fi.fq}|duplicate path|warnings"
    if cw == {1}:
        rep.ok("C11.R3", key, site, "exactly one warning")
    else:
        rep.violation("C11.R3", key, site, f"a duplicate definition yields {_fmt(cw)} warning(s) on the paths of its branch; required exactly one")
    key = f"{fi.fq}|duplicate path|no registration, construction or rendering"
    if ce == {0}:
        rep.ok("C11.R3", key, site)
    else:
        rep.violation("C11.R3", key, site, "after reporting a duplicate definition the handler goes on to construct/register/render the footnote: docutils then moves both names to dupnames and the references to the first definition no longer resolve")
    # the warning carries the [ref.footnote] tag
    reach = ev.cfg.reachable_from(edge)
    dup_warn = [w for w in ev.nodes("warning") if ev.cfg.stmt_of(w) in reach]
    for w in dup_warn:
        key = f"{fi.fq}|duplicate path|warning type"
        if (dotted(w.func) or "").endswith("create_warning"):
            is_method = isinstance(w.func, ast.Attribute)
            sub = arg_or_kw(w, 1 if is_method else 2, "subtype")
            wt = kwarg(w, "wtype")
            got = (wt.value if isinstance(wt, ast.Constant) else None, sub.value if isinstance(sub, ast.Constant) else None)
            if got == ("ref", "footnote"):
                rep.ok("C11.R3", key, fi.module.site(w), "[ref.footnote]")
            else:
                rep.violation("C11.R3", key, fi.module.site(w), f"the duplicate-definition warning is typed {got[0]}.{got[1]} (or non-literal), required ref.footnote like the unreferenced-footnote warnings")
        else:
            rep.violation("C11.R3", key, fi.module.site(w), "the duplicate-definition warning bypasses create_warning: no [ref.footnote] tag, not suppressible")
    # the duplicate's own content is dropped, but definitions of OTHER labels nested in its body are not lost -
    # and each of them is dispatched exactly once (its own rendering handles what is nested inside it)
    me = fi.name
    key = f"{fi.fq}|duplicate path|definitions nested in the duplicate's body are still rendered"
    holders: list[tuple[FunctionInfo, ast.AST]] = []  # (function, dispatch call) with the call inside a loop
    for g in [fi] + [h_ for call_, h_ in _helper_calls(fi) if ev.cfg.stmt_of(call_) in reach and h_.fq != fi.fq]:
        gcfg = get_cfg(g)
        for n in g.local_nodes():
            if isinstance(n, ast.Call) and isinstance(n.func, ast.Attribute) and _is_name(n.func.value, "self") and n.func.attr == me and n.args:
                if g is fi and ev.cfg.stmt_of(n) not in reach:
                    continue
                if any(isinstance(a_, (ast.While, ast.For)) for a_ in ancestors(n)):
                    holders.append((g, n))
    if not holders:
        rep.violation(
            "C11.R3",
            key,
            site,
            "the duplicate branch returns without looking at the token's children: a definition of ANOTHER label written in the indented body of the duplicate (`[^a]: duplicate` + indented `[^b]: only definition of b`) is dropped with it - its text is lost and `[^b]` becomes 'Unknown target name'",
        )
    for g, call in holders:
        gcfg = get_cfg(g)
        loop = next(a_ for a_ in ancestors(call) if isinstance(a_, (ast.While, ast.For)))
        lsite = g.module.site(loop)
        elem = call.args[0]
        if not isinstance(elem, ast.Name):
            raise Unsupported(f"{g.module.site(call)}: nested definition dispatched with `{short(elem, 30)}`")
        # a flat traversal visits every descendant, also those below a nested definition
        flat = isinstance(loop, ast.For) and any(isinstance(x, ast.Call) and isinstance(x.func, ast.Attribute) and x.func.attr in ("walk", "findall", "traverse") for x in ast.walk(loop.iter))
        if flat:
            rep.violation(
                "C11.R3",
                key,
                lsite,
                f"`{short(loop.iter, 50)}` visits every descendant of the duplicate, including definitions nested inside a nested definition - which that definition's own rendering already handles: they are rendered a second time and reported as duplicates of themselves (a bogus 'Duplicate footnote definition' warning each)",
            )
            continue
        gev = Events(g)
        gev.add("dispatch", call)
        for st in ast.walk(loop):
            if isinstance(st, ast.stmt) and st is not loop and not isinstance(st, (ast.If, ast.While, ast.For, ast.With, ast.Try)):
                desc_ = any(isinstance(x, ast.Attribute) and x.attr == "children" and _is_name(x.value, elem.id) for x in ast.walk(st)) or any(
                    isinstance(x, ast.Call) and isinstance(x.func, ast.Attribute) and _is_name(x.func.value, "self") and x.func.attr == g.name and x is not call and any(_is_name(a_, elem.id) for a_ in x.args) for x in ast.walk(st)
                )
                if desc_:
                    gev.add("descend", st)
        dstmt = gcfg.stmt_of(call)
        with_d = gev.paths("descend", ("T", loop), loop, must=[dstmt])
        without_d = gev.paths("descend", ("T", loop), loop, avoid=[dstmt])
        if with_d - {0}:
            rep.violation("C11.R3", key, lsite, "a nested definition is dispatched AND its children are searched again: definitions nested inside it are rendered twice (once by its own rendering) and reported as duplicates of themselves")
        elif not without_d or 0 in without_d:
            rep.violation("C11.R3", key, lsite, "the search does not go below tokens that are not definitions themselves: a definition inside a block quote or list in the duplicate's body (`[^a]: duplicate` + indented `> [^b]: text`) is lost with the duplicate")
        else:
            rep.ok("C11.R3", key, lsite, f"{g.qualname}: each nested {me} token dispatched once, other tokens searched further")
            # tokens whose content is only tokenised when they are rendered have no children to search
            owner = fi.cls
            lazy = sorted(t_ for t_ in LAZY_TOKEN_TYPES if owner is not None and f"render_{t_}" in owner.methods)
            handled = {c_.value for x in ast.walk(loop) if isinstance(x, ast.Compare) for c_ in [x.left, *x.comparators] if isinstance(c_, ast.Constant) and isinstance(c_.value, str)}
            for x in ast.walk(loop):
                if isinstance(x, ast.Compare):
                    for c_ in x.comparators:
                        if isinstance(c_, (ast.Tuple, ast.List, ast.Set)):
                            handled |= {e_.value for e_ in c_.elts if isinstance(e_, ast.Constant)}
            generic = any(isinstance(x, ast.Subscript) and (dotted(x.value) or "").endswith("self.rules") for x in ast.walk(loop))
            key2 = f"{fi.fq}|duplicate path|definitions inside directives of the duplicate's body"
            if lazy and not generic and not (set(lazy) & handled):
                rep.violation(
                    "C11.R3",
                    key2,
                    lsite,
                    f"the search only follows token.children; the content of {', '.join(lazy)} tokens (directives, HTML admonitions, block substitutions, includes) is tokenised only when the token is rendered, so a definition written inside a directive in the duplicate's body (`[^a]: duplicate` + indented ```{{note}} / `[^b]: only definition of b`) is dropped with the duplicate",
                )
            else:
                rep.ok("C11.R3", key2, lsite)
    rep.expect_min("C11.R3", 3, "warning count, no-effect, warning type")


def _attrs_in_test(fi: FunctionInfo, test: ast.expr) -> set[str]:
    out: set[str] = set()
    work = [test]
    seen = set()
    while work:
        e = work.pop()
        for x in ast.walk(e):
            if isinstance(x, ast.Attribute):
                out.add(x.attr)
            if isinstance(x, ast.Name) and x.id not in seen and x.id not in fi.params:
                seen.add(x.id)
                v = _single_assign(fi, x.id)
                if v is not None:
                    work.append(v)
    return out


@rule("C11.R6")
def r6_duplicate_test_registry_kind(corpus: Corpus, rep: Report, tier: str):
    _use(corpus)
    rep.rule("C11.R6", "'duplicate footnote definition' is decided against footnote registries, not the document-wide name/id tables")
    fi = corpus.func(DEF_FN)
    n_if, edge, atom, tctx = _duplicate_test(fi)
    attrs = _attrs_in_test(tctx, atom)
    flat = sorted(attrs & FLAT_TABLES)
    regs = sorted(attrs & FOOTNOTE_REGISTRIES)
    site = fi.module.site(n_if)
    key = f"{fi.fq}|duplicate test|against document.{'/'.join(flat or regs) or '?'}"
    if flat:
        rep.violation(
            "C11.R6",
            key,
            site,
            (
                f"the duplicate test `{short(atom, 70)}` consults document.ids, which is keyed by ids (make_id of a name, or a serial 'footnote-N' for numeric labels), not by labels: distinct labels share an id key and numeric labels have none, so a definition is dropped as 'duplicate' wrongly or a real duplicate goes unnoticed"
                if flat[0] == "ids"
                else f"the duplicate test `{short(atom, 70)}` consults document.{flat[0]}, which holds every named element (section titles, (target)= labels, other directives' names): a footnote whose label equals any such name is dropped as a 'duplicate', its text is lost and its references never resolve"
            ),
        )
    elif regs:
        rep.ok("C11.R6", key, site, f"derived from document.{', '.join(regs)}")
    else:
        raise Unsupported(f"{site}: container of the duplicate test not understood: {short(atom, 70)}")
    # (d) labels are compared as they are stored: verbatim (names[0] = refname = the label, see R2)
    folds = []
    work_, seen_ = [atom], set()
    while work_:
        e_ = work_.pop()
        for x in ast.walk(e_):
            d_ = _folding(tctx, x)
            if d_ is not None:
                folds.append((x, d_))
            if isinstance(x, ast.Name) and x.id not in seen_ and x.id not in tctx.params:
                seen_.add(x.id)
                v_ = _single_assign(tctx, x.id)
                if v_ is not None:
                    work_.append(v_)
    key = f"{fi.fq}|duplicate test|labels compared verbatim"
    if folds:
        x, d_ = folds[0]
        rep.violation(
            "C11.R6",
            key,
            tctx.module.site(x),
            f"the duplicate test compares labels through {d_} (`{short(x, 50)}`), but footnotes are stored and referenced under their verbatim label: two different labels that fold to the same value (`[^note]` / `[^Note]`) count as duplicates, the second definition is dropped, its text is lost and its references never resolve",
        )
    else:
        rep.ok("C11.R6", key, site)
    # (b) both kinds of definitions are covered
    if regs:
        for reg, kind in (("footnotes", "manually numbered"), ("autofootnotes", "auto-numbered")):
            key = f"{fi.fq}|duplicate test|covers document.{reg}"
            if reg in attrs:
                rep.ok("C11.R6", key, site)
            else:
                rep.violation("C11.R6", key, site, f"the duplicate test does not look at document.{reg}: a second definition of a {kind} label is not recognised, docutils moves both names to dupnames and the references to the first definition no longer resolve")
    # (c) what the test looks at is in place before the footnote body is rendered (a duplicate can be nested in the body)
    _, _, d_man, d_auto = _classifier(fi)
    ev, var = _scan_def(fi)
    reads_names = any(isinstance(x, ast.Subscript) and isinstance(x.slice, ast.Constant) and x.slice.value in ("names", "dupnames") for r_ in [atom] + [v for v in (_single_assign(tctx, n_.id) for n_ in ast.walk(atom) if isinstance(n_, ast.Name)) if v is not None] for x in ast.walk(r_))
    feeders = {"manual": [], "auto": []}
    if "footnotes" in attrs:
        feeders["manual"].append(("note_fn", "note_footnote(footnote)"))
    if "autofootnotes" in attrs:
        feeders["auto"].append(("note_autofn", "note_autofootnote(footnote)"))
    if attrs & {"nameids", "nametypes"}:
        feeders["manual"].append(("note_target", "note_explicit_target(footnote, ...)"))
        feeders["auto"].append(("note_target", "note_explicit_target(footnote, ...)"))
    if reads_names and regs:
        feeders["manual"].append(("names", "footnote['names'] gets the label"))
        feeders["auto"].append(("names", "footnote['names'] gets the label"))
    bodies = ev.nodes("body")
    if not bodies:
        raise Unsupported(f"{fi.qualname}: no self.render_children(token) found")
    for side, edge in (("manual", d_man), ("auto", d_auto)):
        for kind, text in feeders[side]:
            key = f"{fi.fq}|duplicate test|{side}|{text} before the body is rendered"
            bad = None
            for b in bodies:
                bst = ev.cfg.stmt_of(b)
                shared = [f_ for f_ in ev.nodes(kind) if f_ is b]
                if shared:
                    if not _precedes(ev, kind, b, "body", b):
                        bad = b
                    continue
                got = ev.paths(kind, ENTRY, bst, avoid=edge.avoid)
                if 0 in got:
                    bad = b
            if bad is None:
                rep.ok("C11.R6", key, fi.module.site(bodies[0]))
            else:
                rep.violation("C11.R6", key, fi.module.site(bad), f"on {side} paths the body of the definition is rendered before `{text}`: a duplicate definition nested in that body (`[^a]: outer` with an indented `[^a]: inner`) is not seen by the duplicate test `{short(atom, 60)}`, both definitions get registered and the references to the label no longer resolve")
    rep.expect_min("C11.R6", 1, "the one duplicate test")


# ---------------------------------------------------------------------------
# R4 - the collector (and the sorter's guard)


def _doc_attr(e: ast.AST, attr: str) -> bool:
    """``<x>.document.<attr>``"""
    return isinstance(e, ast.Attribute) and e.attr == attr and isinstance(e.value, ast.Attribute) and e.value.attr == "document"


def _is_document(e: ast.AST) -> bool:
    return isinstance(e, ast.Attribute) and e.attr == "document" and _is_name(e.value, "self")


OPTION_HOLDERS = ("settings", "document")  # the renderer stores per-document options on the document or on its settings


def _setting_name(e: ast.expr) -> str | None:
    """name of a per-document option read ``<x>.settings.<name>`` / ``<x>.document.myst_<name>``"""
    if isinstance(e, ast.Attribute) and isinstance(e.value, ast.Attribute):
        if e.value.attr == "settings" or (e.value.attr == "document" and e.attr.startswith("myst_")):
            return e.attr
    return None


def _holder_of(fi: FunctionInfo, n: ast.AST) -> str | None:
    """'settings' or 'document': the object a per-document option is read from / stored on"""
    obj = n.value if isinstance(n, ast.Attribute) else (n.args[0] if isinstance(n, ast.Call) and n.args else None)
    if isinstance(obj, ast.Name) and obj.id not in fi.params:
        obj = _deref(fi, obj)
    if isinstance(obj, ast.Attribute) and obj.attr in OPTION_HOLDERS:
        return obj.attr
    return None


def _const_str(e: ast.expr, env: dict[str, ast.expr]) -> str | None:
    """literal value of a string expression (constants, f-strings and ``+`` over parameters bound to constants)"""
    if isinstance(e, ast.Constant) and isinstance(e.value, str):
        return e.value
    if isinstance(e, ast.Name) and e.id in env:
        return _const_str(env[e.id], {})
    if isinstance(e, ast.JoinedStr):
        parts = []
        for v in e.values:
            if isinstance(v, ast.Constant):
                parts.append(str(v.value))
            elif isinstance(v, ast.FormattedValue) and v.format_spec is None and v.conversion == -1:
                x = _const_str(v.value, env)
                if x is None:
                    return None
                parts.append(x)
            else:
                return None
        return "".join(parts)
    if isinstance(e, ast.BinOp) and isinstance(e.op, ast.Add):
        a, b = _const_str(e.left, env), _const_str(e.right, env)
        return a + b if a is not None and b is not None else None
    return None


def _resolve_setting(fi: FunctionInfo, e: ast.expr, env: dict[str, ast.expr] | None = None, depth: int = 0):
    """Where a boolean option value comes from: [("setting", name, node)] for ``<x>.settings.<name>`` (attribute or
    getattr, also reached through local aliases and value helpers), [("foreign", text, node)] for a read of a
    configuration object (``...myst_config.x`` / ``...config.x``); [] if ``e`` is neither."""
    env = env or {}
    for _ in range(6):
        if isinstance(e, ast.UnaryOp) and isinstance(e.op, ast.Not):
            e = e.operand
        elif isinstance(e, ast.Call) and dotted(e.func) == "bool" and len(e.args) == 1:
            e = e.args[0]
        elif isinstance(e, ast.Name) and e.id not in env and e.id not in fi.params:
            e2 = _deref(fi, e)
            if e2 is e:
                break
            e = e2
        else:
            break
    if isinstance(e, ast.Attribute):
        base_ = e.value
        if isinstance(base_, ast.Name) and base_.id not in fi.params:
            base_ = _deref(fi, base_)
        if isinstance(base_, ast.Attribute) and (base_.attr == "settings" or (base_.attr == "document" and e.attr.startswith("myst_"))):
            return [("setting", e.attr, e)]
        if isinstance(e.value, ast.Attribute) and e.value.attr in ("myst_config", "md_config", "config"):
            return [("foreign", unparse(e), e)]
        return []
    if isinstance(e, ast.Call) and dotted(e.func) == "getattr" and len(e.args) >= 2:
        obj = e.args[0]
        obj = _deref(fi, obj) if isinstance(obj, ast.Name) and obj.id not in fi.params else obj
        name = _const_str(e.args[1], env)
        if isinstance(obj, ast.Attribute) and obj.attr in OPTION_HOLDERS:
            if name is None:
                raise Unsupported(f"{fi.module.site(e)}: setting name `{short(e.args[1], 40)}` is not a literal")
            if obj.attr == "document" and not name.startswith("myst_"):
                return []
            return [("setting", name, e)]
        if isinstance(obj, ast.Attribute) and obj.attr in ("myst_config", "md_config", "config"):
            return [("foreign", f"{unparse(obj)}.{name or short(e.args[1], 30)}", e)]
        return []
    if isinstance(e, ast.IfExp):
        return _resolve_setting(fi, e.body, env, depth) + _resolve_setting(fi, e.orelse, env, depth)
    if isinstance(e, ast.BoolOp):
        out = []
        for v in e.values:
            out += _resolve_setting(fi, v, env, depth)
        return out
    if isinstance(e, ast.Call) and depth < 2 and (isinstance(e.func, ast.Name) or (isinstance(e.func, ast.Attribute) and _is_name(e.func.value, "self"))):
        h = _resolve_helper(fi, e)
        if h is None or h.is_lambda or h.fq == fi.fq:
            return []
        binding = _bind_args(h, e)
        henv = {p_: (env.get(a.id, a) if isinstance(a, ast.Name) else a) for p_, a in binding.items()}
        out = []
        for n in h.local_nodes():
            if isinstance(n, ast.Return) and n.value is not None:
                out += _resolve_setting(h, n.value, henv, depth + 1)
        return out
    return []


def _judge_guards(fi: FunctionInfo, stmt, want: dict[str, bool]) -> tuple[list[str], list[str]]:
    """Split the dominating branch facts of ``stmt`` into problems and a description.
    ``want``: setting name -> required polarity.  Facts over locals only are tolerated;
    facts on other settings are problems; anything else is outside the understood subset."""
    cfg = get_cfg(fi)
    problems, desc = [], []
    seen: dict[str, bool] = {}
    for t, pol in cfg.guards(stmt):
        t = _deref(fi, t) if isinstance(t, ast.Name) else t
        while isinstance(t, ast.UnaryOp) and isinstance(t.op, ast.Not):
            t, pol = t.operand, not pol
        sname = _setting_name(t)
        if sname is None and isinstance(t, ast.Call) and dotted(t.func) == "bool" and len(t.args) == 1:
            sname = _setting_name(t.args[0])
        if sname is None:
            srcs = _resolve_setting(fi, t)
            names = {n_ for k_, n_, _x in srcs if k_ == "setting"}
            foreign = [n_ for k_, n_, _x in srcs if k_ == "foreign"]
            if foreign:
                problems.append(f"is decided by `{foreign[0]}` on some path instead of the per-document value the renderer stores in document.settings (front matter is ignored there)")
            if len(names) == 1:
                sname = names.pop()
            elif len(names) > 1:
                raise Unsupported(f"{fi.module.site(t)}: guard `{short(t, 60)}` mixes several settings")
            elif foreign:
                desc.append(("" if pol else "not ") + foreign[0])
                continue
        if sname is not None:
            seen[sname] = pol
            if sname not in want:
                problems.append(f"also depends on settings.{sname}")
            elif want[sname] != pol:
                problems.append(f"runs when settings.{sname} is {'true' if pol else 'false'}")
            desc.append(("" if pol else "not ") + sname)
            continue
        settings_inside = [x for x in ast.walk(t) if isinstance(x, ast.Attribute) and x.attr == "settings"]
        if settings_inside:
            raise Unsupported(f"{fi.module.site(t)}: guard `{short(t, 60)}` mixes a setting into a larger expression")
        desc.append(("" if pol else "not ") + short(t, 40))
    for sname in want:
        if sname not in seen:
            problems.append(f"is not guarded by settings.{sname}")
    return problems, desc


class Parts:
    """The loop that moves the footnotes: ``lfi``/``loop`` where it lives, ``anchor`` the statement of
    CollectFootnotes.apply that runs it (the loop itself or the call of the helper holding it),
    ``iter`` the iterated expression as written in apply."""

    def __init__(self, lfi, loop, removes, appends, anchor, iter_):
        self.lfi, self.loop, self.removes, self.appends, self.anchor, self.iter = lfi, loop, removes, appends, anchor, iter_

    def __iter__(self):  # (loop, removes, appends) for older callers
        return iter((self.loop, self.removes, self.appends))


def _move_loops(fi: FunctionInfo):
    out = []
    for n in fi.local_nodes():
        if not isinstance(n, ast.For):
            continue
        names = {x.id for x in ast.walk(n.target) if isinstance(x, ast.Name)}
        removes, appends = [], []
        for x in ast.walk(n):
            if isinstance(x, ast.Call) and isinstance(x.func, ast.Attribute) and x.func.attr == "remove" and len(x.args) == 1 and isinstance(x.args[0], ast.Name) and x.args[0].id in names:
                r = x.func.value
                if isinstance(r, ast.Attribute) and r.attr == "parent" and _is_name(r.value, x.args[0].id):
                    removes.append(x)
            if isinstance(x, ast.AugAssign) and isinstance(x.op, ast.Add) and _is_document(x.target) and isinstance(x.value, ast.Name) and x.value.id in names:
                appends.append(x)
            if isinstance(x, ast.Call) and isinstance(x.func, ast.Attribute) and x.func.attr in ("append", "extend") and _is_document(x.func.value) and len(x.args) == 1 and isinstance(x.args[0], ast.Name) and x.args[0].id in names:
                appends.append(x)
        if removes or appends:
            out.append((n, removes, appends))
    return out


def _helper_calls(fi: FunctionInfo):
    """[(call, helper)] for the package helpers ``fi`` calls as self.h(...) / h(...)."""
    out = []
    for n in fi.local_nodes():
        if isinstance(n, ast.Call) and ((isinstance(n.func, ast.Attribute) and _is_name(n.func.value, "self")) or isinstance(n.func, ast.Name)):
            h = _resolve_helper(fi, n)
            if h is not None and not h.is_lambda and h.fq != fi.fq and h.module is fi.module:
                out.append((n, h))
    return out


def _collector_parts(fi: FunctionInfo) -> Parts:
    """Locate the loop that moves the footnotes, in CollectFootnotes.apply or one helper it calls."""
    here = _move_loops(fi)
    there = [(call, h, ml) for call, h in _helper_calls(fi) for ml in _move_loops(h)]
    if len(here) + len(there) > 1:
        raise Unsupported(f"{fi.qualname}: more than one loop moves footnotes")
    if here:
        loop, removes, appends = here[0]
        return Parts(fi, loop, removes, appends, loop, loop.iter)
    if there:
        call, h, (loop, removes, appends) = there[0]
        cfg = get_cfg(fi)
        it = loop.iter
        if isinstance(it, ast.Name) and it.id in h.params:
            binding = _bind_args(h, call)
            if it.id not in binding:
                raise Unsupported(f"{fi.module.site(call)}: {h.qualname} iterates a parameter that the call leaves to its default")
            it = binding[it.id]
        elif any(isinstance(x, ast.Name) and x.id in h.params and x.id != "self" for x in ast.walk(it)):
            hb = _bind_args(h, call)
            if not (isinstance(it, ast.Call) and dotted(it.func) == "sorted" and it.args and isinstance(it.args[0], ast.Name) and it.args[0].id in hb and isinstance(_deref(fi, hb[it.args[0].id]), (ast.Name, ast.List, ast.ListComp))):
                raise Unsupported(f"{h.module.site(loop)}: the move loop iterates `{short(it, 50)}`")
            # sorted(<param>, key=...) inside the helper: the list is the argument of apply
            it = ast.Call(func=it.func, args=[hb[it.args[0].id], *it.args[1:]], keywords=it.keywords)
            ast.copy_location(it, loop.iter)
            ast.fix_missing_locations(it)
        return Parts(h, loop, removes, appends, cfg.stmt_of(call), it)
    raise Unsupported(f"{fi.qualname}: no loop that detaches footnotes from their parent and appends them to self.document")


def _transition_sites(fi: FunctionInfo):
    """[(function holding the construction, constructor call, statement of apply that runs it)]"""
    def ctors(f):
        return [n for n in f.local_nodes() if isinstance(n, ast.Call) and f.module.resolve(dotted(n.func) or "") == "docutils.nodes.transition"]
    cfg = get_cfg(fi)
    out = [(fi, c, cfg.stmt_of(c)) for c in ctors(fi)]
    for call, h in _helper_calls(fi):
        for c in ctors(h):
            out.append((h, c, cfg.stmt_of(call)))
    return out


def _is_registry_view(fi: FunctionInfo, e: ast.expr, reg: str):
    """How ``e`` relates to ``document.<reg>``: 'all' (the registry, a copy of it, or an unfiltered
    comprehension of its elements), 'filtered' (a comprehension with a condition), None (unrelated)."""
    e = _deref(fi, e)
    if _doc_attr(e, reg):
        return "all"
    if isinstance(e, ast.Subscript) and _doc_attr(e.value, reg) and isinstance(e.slice, ast.Slice) and e.slice.lower is None and e.slice.upper is None and e.slice.step is None:
        return "all"
    if isinstance(e, ast.Call) and dotted(e.func) in ("list", "tuple", "iter") and len(e.args) == 1 and not e.keywords:
        return _is_registry_view(fi, e.args[0], reg)
    if isinstance(e, (ast.GeneratorExp, ast.ListComp)) and len(e.generators) == 1:
        g = e.generators[0]
        inner = _is_registry_view(fi, g.iter, reg)
        if inner is None:
            return None
        if not (isinstance(g.target, ast.Name) and _is_name(e.elt, g.target.id)):
            raise Unsupported(f"{fi.module.site(e)}: document.{reg} is mapped through `{short(e.elt, 40)}` before sorting")
        return "filtered" if (g.ifs or inner == "filtered") else "all"
    if any(_doc_attr(x, reg) for x in ast.walk(e)):
        raise Unsupported(f"{fi.module.site(e)}: view of document.{reg} not understood: {short(e, 60)}")
    return None


def _sorter_model(sf: FunctionInfo) -> list[tuple[ast.AST, ast.expr | None, str | None]]:
    """[(sort construct, key expression, problem | None)] for every re-ordering of document.autofootnotes."""
    REG = "autofootnotes"
    out: list[tuple[ast.AST, ast.expr | None, str | None]] = []
    for n in sf.local_nodes():
        if isinstance(n, ast.Call) and isinstance(n.func, ast.Attribute) and n.func.attr == "sort" and _doc_attr(n.func.value, REG):
            out.append((n, kwarg(n, "key"), None))
        elif isinstance(n, (ast.Assign, ast.AugAssign)):
            targets = n.targets if isinstance(n, ast.Assign) else [n.target]
            hit = [t for t in targets if _doc_attr(t, REG) or (isinstance(t, ast.Subscript) and _doc_attr(t.value, REG))]
            if not hit:
                continue
            t = hit[0]
            if isinstance(n, ast.AugAssign) or (isinstance(t, ast.Subscript) and not (isinstance(t.slice, ast.Slice) and t.slice.lower is None and t.slice.upper is None)):
                raise Unsupported(f"{sf.module.site(n)}: partial rewrite of document.{REG}")
            v = n.value
            if not (isinstance(v, ast.Call) and dotted(v.func) == "sorted" and v.args):
                raise Unsupported(f"{sf.module.site(n)}: document.{REG} rebuilt from `{short(v, 50)}` (not sorted(...))")
            view = _is_registry_view(sf, v.args[0], REG)
            if view is None:
                raise Unsupported(f"{sf.module.site(n)}: document.{REG} rebuilt from something else than itself")
            problem = None
            if view == "filtered":
                problem = f"rebuilds document.{REG} from a filtered view of itself: the footnotes that fail the condition leave the registry, docutils never labels them and the collector never moves them (the re-ordering must be a permutation)"
            out.append((n, kwarg(v, "key"), problem))
        elif isinstance(n, ast.Call) and dotted(n.func) == "sorted" and n.args and isinstance(parent(n), ast.Expr):
            try:
                view = _is_registry_view(sf, n.args[0], REG)
            except Unsupported:
                view = None
            if view is not None:
                out.append((n, kwarg(n, "key"), f"sorts a copy of document.{REG} and discards it: docutils numbers the registry in definition order, not in order of first reference"))
    if not out:
        raise Unsupported("SortFootnotes.apply: no re-ordering of document.autofootnotes found")
    return out


@rule("C11.R4")
def r4_collector(corpus: Corpus, rep: Report, tier: str):
    _use(corpus)
    rep.rule("C11.R4", "collector: guarded by myst_footnote_sort only; gathers footnotes+autofootnotes; each moved once (detach, then attach to the document) in ascending key order; one transition under myst_footnote_transition, attached to the document before the footnotes; sorter sorts autofootnotes once")
    fi = corpus.func(f"{TRANS}:CollectFootnotes.apply")
    rep.saw_function(fi.fq)
    cfg = get_cfg(fi)
    parts = _collector_parts(fi)
    loop, removes, appends = parts
    lfi, anchor = parts.lfi, parts.anchor
    lcfg = get_cfg(lfi)
    rep.saw_function(lfi.fq)
    site = lfi.module.site(loop)

    # (a) guard
    problems, desc = _judge_guards(fi, anchor, {"myst_footnote_sort": True})
    if lfi is not fi:
        p_in, d_in = _judge_guards(lfi, loop, {})
        problems += p_in
        desc += d_in
    key = f"{fi.fq}|move loop|guard"
    if problems:
        rep.violation("C11.R4", key, site, "the loop that moves the footnotes " + "; ".join(problems) + ": with footnote_sort on, all definitions move to the end; with it off, none does")
    else:
        rep.ok("C11.R4", key, site, " and ".join(desc))
    # sort disabled => nothing moved, no transition
    lev = Events(lfi)
    for x in removes:
        lev.add("remove", x)
    for x in appends:
        lev.add("append", x)
    tsites = _transition_sites(fi)

    # (b) each footnote moved exactly once per iteration, detach before attach
    t_edge = ("T", loop)
    w_rm, w_ap = lev._weight("remove"), lev._weight("append")
    c_rm = set(lcfg.counts(t_edge, [loop], w_rm).get(loop, set()))
    c_ap = set(lcfg.counts(t_edge, [loop], w_ap).get(loop, set()))
    key = f"{fi.fq}|move loop|detach once, attach once"
    if c_rm == {1} and c_ap == {1}:
        rep.ok("C11.R4", key, site)
    else:
        rep.violation("C11.R4", key, site, f"per iteration the footnote is detached from its parent {_fmt(c_rm)} time(s) and appended to the document {_fmt(c_ap)} time(s); required once each (a footnote must end up in exactly one place)")
    key = f"{fi.fq}|move loop|detach before attach"
    if removes and appends and all(any(lcfg.dominates(lcfg.stmt_of(r), lcfg.stmt_of(a)) for r in removes) for a in appends):
        rep.ok("C11.R4", key, site)
    elif removes and appends:
        rep.violation("C11.R4", key, site, "the footnote is appended to the document before it is detached: `+=` re-parents it, so `footnote.parent.remove(footnote)` then removes it from the document again (a footnote defined inside a section or block quote disappears)")

    # (c) iteration order: sorted(<gathered>, key=K), ascending
    it = _deref(fi, parts.iter) if isinstance(parts.iter, ast.Name) else parts.iter
    key = f"{fi.fq}|move loop|ascending order"
    if not (isinstance(it, ast.Call) and dotted(it.func) == "sorted" and it.args and kwarg(it, "key") is not None):
        raise Unsupported(f"{site}: the move loop does not iterate over sorted(<list>, key=...)")
    rev = kwarg(it, "reverse")
    if rev is None or (isinstance(rev, ast.Constant) and rev.value is False):
        rep.ok("C11.R4", key, site, f"sorted(..., key={unparse(kwarg(it, 'key'))})")
    elif isinstance(rev, ast.Constant):
        rep.violation("C11.R4", key, site, "footnotes are appended in descending key order; the property requires ascending label order")
    else:
        raise Unsupported(f"{site}: reverse= is not a literal")

    # (d) gathered registries
    gathered = it.args[0]
    if not isinstance(gathered, ast.Name):
        raise Unsupported(f"{site}: sorted() is not applied to a local list")
    fills = [n for n in fi.local_nodes() if isinstance(n, ast.Call) and isinstance(n.func, ast.Attribute) and n.func.attr in ("append", "extend") and _is_name(n.func.value, gathered.id)]
    init = _single_assign(fi, gathered.id)
    srcs: set[str] = set()
    for f_ in fills:
        for a in ancestors(f_):
            if isinstance(a, ast.For):
                srcs |= {x.attr for x in ast.walk(a.iter) if isinstance(x, ast.Attribute) and _doc_attr(x, x.attr)}
                break
    if init is not None:
        srcs |= {x.attr for x in ast.walk(init) if isinstance(x, ast.Attribute) and _doc_attr(x, x.attr)}
    if not srcs:
        walked = None
        for e_ in [a.iter for f_ in fills for a in ancestors(f_) if isinstance(a, ast.For)] + ([init] if init is not None else []):
            for x in ast.walk(e_):
                if isinstance(x, ast.Call) and ((isinstance(x.func, ast.Attribute) and x.func.attr in TRAVERSALS) or (dotted(x.func) or "").rsplit(".", 1)[-1] in ("findall", "traverse")) and any(_is_document(y) for y in ast.walk(e_)):
                    walked = x
        if walked is None:
            raise Unsupported(f"{fi.qualname}: cannot see which document registries feed `{gathered.id}`")
        for reg in ("footnotes", "autofootnotes"):
            rep.violation(
                "C11.R4",
                f"{fi.fq}|gathers document.{reg}",
                fi.module.site(walked),
                f"the definitions to move are found by walking the document tree (`{short(walked, 50)}`), not read from document.{reg}: a footnote that is registered - and therefore numbered and linked by docutils - but not attached to the tree (written in the body of a directive that parses its content into a scratch node and discards it, e.g. {{list-table}} with only `[^a]: text`) is no longer re-attached, so its reference points at an id no element carries and its text is lost",
            )
        srcs = {"footnotes", "autofootnotes", "<tree>"}
    for f_ in fills:
        gl = next((a for a in ancestors(f_) if isinstance(a, ast.For)), None)
        if gl is None:
            continue
        gev = Events(fi)
        gev.add("fill", f_)
        c_fill = set(cfg.counts(("T", gl), [gl], gev._weight("fill")).get(gl, set()))
        key = f"{fi.fq}|gathers every footnote of the registries once"
        extra = [t for t, _p in cfg.guards(cfg.stmt_of(f_)) if not any(t is t2 for t2, _q in cfg.guards(gl))]
        if c_fill == {1}:
            rep.ok("C11.R4", key, fi.module.site(gl))
        elif c_fill == {0, 1} and extra and all(any(isinstance(x, ast.Attribute) and x.attr == "parent" for x in ast.walk(t)) for t in extra):
            rep.assumed("C11.R4", key, fi.module.site(gl), "only footnotes without a parent (detached from the tree) are skipped")
        else:
            rep.violation("C11.R4", key, fi.module.site(gl), f"per registry entry the footnote is put on the list to move {_fmt(c_fill)} time(s): a skipped definition stays where written although footnote_sort is on")
    for cmp_ in [x for f_ in fills for a in ancestors(f_) if isinstance(a, ast.For) for x in ast.walk(a.iter) if isinstance(x, (ast.GeneratorExp, ast.ListComp))] + ([init] if isinstance(init, (ast.ListComp, ast.GeneratorExp)) else []):
        if any(g.ifs for g in cmp_.generators):
            rep.violation("C11.R4", f"{fi.fq}|gathers every footnote of the registries once", fi.module.site(cmp_), "the registries are filtered before collecting: a skipped definition stays where written although footnote_sort is on")
    for reg in ("footnotes", "autofootnotes"):
        key = f"{fi.fq}|gathers document.{reg}"
        if "<tree>" in srcs:
            continue
        if reg in srcs:
            rep.ok("C11.R4", key, site)
        else:
            rep.violation("C11.R4", key, site, f"document.{reg} is not collected: {'manually numbered' if reg == 'footnotes' else 'auto-numbered'} footnotes stay where written although footnote_sort is on")
    rep.listed("C11.R4", f"{fi.fq}|gathers document.symbol_footnotes", site, "present" if "symbol_footnotes" in srcs else "absent (MyST creates no symbol footnotes)")

    # (e) the transition
    key = f"{fi.fq}|transition|at most one, under myst_footnote_transition, attached to the document before the footnotes"
    if not tsites:
        rep.listed("C11.R4", key, site, "no transition is built")
    else:
        tev = Events(fi)
        for _tfi, _tc, outer in tsites:
            tev.add("transition", outer)
        c_tr = tev.count("transition", ENTRY)
        problems = []
        if not c_tr <= {0, 1}:
            problems.append(f"{_fmt(c_tr)} transitions can be built on one path")
        for tfi, tc, outer in tsites:
            rep.saw_function(tfi.fq)
            tcfg = get_cfg(tfi)
            st = tcfg.stmt_of(tc)
            p2, _ = _judge_guards(fi, outer, {"myst_footnote_sort": True, "myst_footnote_transition": True})
            if tfi is not fi:
                p2 += _judge_guards(tfi, st, {})[0]
                if any(tcfg.loops.get(st) is not None for _ in (0,)):
                    problems.append("the transition is built inside a loop")
            problems += [f"the transition {p}" for p in p2]
            # its attachment
            tv = st.targets[0].id if isinstance(st, ast.Assign) and len(st.targets) == 1 and isinstance(st.targets[0], ast.Name) else None
            if tv is None:
                raise Unsupported(f"{tfi.module.site(tc)}: transition not bound to a local")
            att = [n for n in tfi.local_nodes() if (isinstance(n, ast.AugAssign) and _is_name(n.value, tv)) or (isinstance(n, ast.Call) and isinstance(n.func, ast.Attribute) and n.func.attr in ("append", "insert") and any(_is_name(a, tv) for a in n.args))]
            if len(att) != 1:
                raise Unsupported(f"{tfi.module.site(tc)}: expected one attachment of the transition, found {len(att)}")
            a = att[0]
            tgt = a.target if isinstance(a, ast.AugAssign) else a.func.value
            if not _is_document(tgt) or (isinstance(a, ast.Call) and a.func.attr == "insert"):
                problems.append(f"the transition is attached with `{short(a, 50)}`, not appended to self.document")
            ast_ = tcfg.stmt_of(a)
            if not tcfg.dominates(st, ast_):
                problems.append("the transition is attached on a path that did not build it")
            after = outer in cfg.reachable_from(("T", anchor)) if isinstance(anchor, (ast.For, ast.While)) else (outer in cfg.reachable_from(anchor) and outer is not anchor)
            if after or outer is anchor or anchor not in cfg.reachable_from(outer):
                problems.append("the transition is attached after (or inside) the loop that appends the footnotes, so it does not precede them")
        if problems:
            rep.violation("C11.R4", key, tsites[0][0].module.site(tsites[0][1]), "; ".join(dict.fromkeys(problems)))
        else:
            rep.ok("C11.R4", key, tsites[0][0].module.site(tsites[0][1]))

    # (f) nothing happens with sorting off: every Return before the loop is guarded by `not sort` only
    for r in [n for n in fi.local_nodes() if isinstance(n, ast.Return)]:
        g = cfg.guards(r)
        names = [(_setting_name(t) or next((n_ for k_, n_, _x in _resolve_setting(fi, t) if k_ == "setting"), None), pol) for t, pol in g]
        key = f"{fi.fq}|early return|{' and '.join(('' if p else 'not ') + (_setting_name(t) or short(t, 40)) for t, p in g) or 'unconditional'}"
        if any(n_ is not None and n_ != "myst_footnote_sort" for n_, _ in names):
            rep.violation("C11.R4", key, fi.module.site(r), "the collector gives up depending on a setting other than myst_footnote_sort")
        else:
            rep.ok("C11.R4", key, fi.module.site(r))

    # (g) SortFootnotes: with sorting on, document.autofootnotes is permuted in place exactly once
    sf = corpus.func(f"{TRANS}:SortFootnotes.apply")
    rep.saw_function(sf.fq)
    model = _sorter_model(sf)
    sev = Events(sf)
    for sn, _k, _v in model:
        sev.add("sort", sn)
    for sn, kexpr, verdict in model:
        st = sev.cfg.stmt_of(sn)
        problems, desc = _judge_guards(sf, st, {"myst_footnote_sort": True})
        problems = [p for p in problems if "is not guarded" not in p]  # sorting unconditionally would still satisfy the property
        key = f"{sf.fq}|sorts document.autofootnotes"
        if verdict is not None:
            problems.append(verdict)
        call = sn if isinstance(sn, ast.Call) else (sn.value if isinstance(sn, ast.Assign) else None)
        rv = kwarg(call, "reverse") if isinstance(call, ast.Call) else None
        if rv is not None and not (isinstance(rv, ast.Constant) and rv.value is False):
            problems.append("sorts in reverse reference order")
        if kexpr is None:
            problems.append("sorts footnote nodes without a key")
        else:
            kf = sf.module.functions.get(f"{sf.qualname}.{kexpr.id}") if isinstance(kexpr, ast.Name) else getattr(kexpr, "_fi", None)
            src = (list(ast.walk(kf.node)) if kf is not None else []) + list(sf.local_nodes())
            if not any(_doc_attr(x, "autofootnote_refs") for x in src):
                problems.append("the order does not derive from document.autofootnote_refs (the references in document order)")
        if problems:
            rep.violation("C11.R4", key, sf.module.site(sn), "SortFootnotes " + "; ".join(problems))
        else:
            rep.ok("C11.R4", key, sf.module.site(sn), " and ".join(desc))
    if any(v is not None and "discards" in v for _, _, v in model):
        c_sort = {1}
    else:
        c_sort = sev.count("sort", ENTRY)
    key = f"{sf.fq}|sorts once when enabled"
    if 1 in c_sort and c_sort <= {0, 1}:
        rep.ok("C11.R4", key, sf.site(), f"counts {_fmt(c_sort)} (0 = sorting disabled)")
    else:
        rep.violation("C11.R4", key, sf.site(), f"document.autofootnotes is sorted {_fmt(c_sort)} time(s) on the paths of SortFootnotes.apply")
    rep.expect_min("C11.R4", 9, "guard, once, order, ascending, 2 registries, transition, early return, sorter x2")


# ---------------------------------------------------------------------------
# R8 - the label order key is total


def _ann_text(a: ast.expr | None) -> str:
    if a is None:
        return ""
    if isinstance(a, ast.Constant) and isinstance(a.value, str):
        return a.value.replace(" ", "")
    return unparse(a).replace(" ", "")


def _kind(fi: FunctionInfo, e: ast.expr, depth: int = 0):
    """Comparable kind of an expression: 'int' | 'str' | ('tuple', kinds...) ; Unsupported if unknown."""
    if depth > 6:
        raise Unsupported("kind inference too deep")
    if isinstance(e, ast.Constant):
        if isinstance(e.value, bool) or isinstance(e.value, int):
            return "int"
        if isinstance(e.value, str):
            return "str"
    if isinstance(e, ast.Tuple):
        return ("tuple", *[_kind(fi, x, depth + 1) for x in e.elts])
    if isinstance(e, ast.Call):
        d = dotted(e.func) or ""
        last = d.rsplit(".", 1)[-1]
        if d in ("int", "len", "ord", "float") or last in ("index", "count", "find"):
            return "int"
        if d in ("str", "repr") or last in ("astext", "lower", "upper", "strip", "casefold", "join", "format"):
            return "str"
    if isinstance(e, ast.JoinedStr):
        return "str"
    if isinstance(e, ast.Subscript) or (isinstance(e, ast.Call) and isinstance(e.func, ast.Attribute) and e.func.attr == "get" and e.args):
        cont = e.value if isinstance(e, ast.Subscript) else e.func.value
        vk = _dict_value_kind(fi, cont)
        if vk is not None:
            if isinstance(e, ast.Call) and len(e.args) == 2:
                dk = _kind(fi, e.args[1], depth + 1)
                return vk if dk == vk else ("mixed", vk, dk)
            if isinstance(e, ast.Call) and len(e.args) == 1:
                raise Unsupported(f"`{short(e, 40)}` may yield None as a sort key")
            return vk
    if isinstance(e, ast.IfExp):
        a, b = _kind(fi, e.body, depth + 1), _kind(fi, e.orelse, depth + 1)
        if a == b:
            return a
        return ("mixed", a, b)
    if isinstance(e, ast.Name):
        # parameter with a simple annotation
        a = fi.node.args
        for p in a.posonlyargs + a.args + a.kwonlyargs:
            if p.arg == e.id:
                t = _ann_text(p.annotation)
                if t in ("int", "str"):
                    return t
                raise Unsupported(f"kind of parameter {e.id}: {t or 'unannotated'}")
        v = _single_assign(fi, e.id)
        if v is not None:
            return _kind(fi, v, depth + 1)
        # tuple-unpacking from an annotated parameter: `label, _ = footnote` with footnote: tuple[str, X]
        for n in fi.local_nodes():
            if isinstance(n, ast.Assign) and len(n.targets) == 1 and isinstance(n.targets[0], ast.Tuple) and isinstance(n.value, ast.Name):
                names = [x.id if isinstance(x, ast.Name) else None for x in n.targets[0].elts]
                if e.id in names:
                    for p in a.posonlyargs + a.args + a.kwonlyargs:
                        if p.arg == n.value.id:
                            t = _ann_text(p.annotation)
                            if t.startswith("tuple[") and t.endswith("]"):
                                parts = _split_top(t[6:-1])
                                if len(parts) == len(names) and parts[names.index(e.id)] in ("int", "str"):
                                    return parts[names.index(e.id)]
        raise Unsupported(f"kind of local {e.id} in {fi.qualname}")
    raise Unsupported(f"kind of `{short(e, 50)}` in {fi.qualname}")


def _binding(fi: FunctionInfo, name: str):
    """(function, value expr, annotation) of the single binding of ``name`` in ``fi`` or an enclosing function."""
    f = fi
    while f is not None:
        if name in f.params:
            return None
        anns = [n for n in f.local_nodes() if isinstance(n, ast.AnnAssign) and _is_name(n.target, name)]
        v = _single_assign(f, name)
        if v is not None:
            return f, v, (anns[0].annotation if anns else None)
        f = f.parent_func
    return None


def _dict_value_kind(fi: FunctionInfo, cont: ast.expr):
    """Kind of the values of a local dict (annotation ``dict[K, V]`` or a dict comprehension over enumerate())."""
    if not isinstance(cont, ast.Name):
        return None
    b = _binding(fi, cont.id)
    if b is None:
        return None
    f, v, ann = b
    t = _ann_text(ann)
    if t.startswith("dict[") and t.endswith("]"):
        parts = _split_top(t[5:-1])
        if len(parts) == 2 and parts[1] in ("int", "str"):
            return parts[1]
    if isinstance(v, ast.DictComp):
        idx = _enumerate_index_names(v.generators)
        if isinstance(v.value, ast.Name) and v.value.id in idx:
            return "int"
        if isinstance(v.value, ast.Constant):
            return _kind(f, v.value)
    if (isinstance(v, ast.Dict) and not v.keys) or (isinstance(v, ast.Call) and dotted(v.func) == "dict" and not v.args and not v.keywords):
        # filled by stores: the kinds of all stored values
        kinds = set()
        loop_idx = _enumerate_index_names([n for n in f.local_nodes() if isinstance(n, ast.For)])
        for n in f.local_nodes():
            val = None
            if isinstance(n, ast.Assign) and len(n.targets) == 1 and isinstance(n.targets[0], ast.Subscript) and _is_name(n.targets[0].value, cont.id):
                val = n.value
            elif isinstance(n, ast.Call) and isinstance(n.func, ast.Attribute) and n.func.attr == "setdefault" and _is_name(n.func.value, cont.id) and len(n.args) == 2:
                val = n.args[1]
            if val is not None:
                kinds.add("int" if isinstance(val, ast.Name) and val.id in loop_idx else _kind(f, val))
        if len(kinds) == 1:
            return kinds.pop()
    return None


def _enumerate_index_names(generators) -> set[str]:
    out = set()
    for g in generators:
        it = g.iter
        while isinstance(it, ast.Call) and dotted(it.func) in ("reversed", "list", "tuple") and len(it.args) == 1:
            it = it.args[0]
        if isinstance(it, ast.Call) and dotted(it.func) == "enumerate" and isinstance(g.target, ast.Tuple) and g.target.elts and isinstance(g.target.elts[0], ast.Name):
            out.add(g.target.elts[0].id)
    return out


def _split_top(s: str) -> list[str]:
    out, depth, cur = [], 0, ""
    for ch in s:
        if ch == "[":
            depth += 1
        elif ch == "]":
            depth -= 1
        if ch == "," and depth == 0:
            out.append(cur)
            cur = ""
        else:
            cur += ch
    out.append(cur)
    return out


def _key_function(fi: FunctionInfo, key_expr: ast.expr) -> FunctionInfo:
    if isinstance(key_expr, ast.Name):
        kf = fi.module.functions.get(f"{fi.qualname}.{key_expr.id}") or fi.module.functions.get(key_expr.id)
        if kf is not None:
            return kf
    if isinstance(key_expr, ast.Lambda) and hasattr(key_expr, "_fi"):
        return key_expr._fi
    if isinstance(key_expr, ast.Attribute) and _is_name(key_expr.value, "self"):
        owner = fi
        while owner.parent_func is not None:
            owner = owner.parent_func
        if owner.cls is not None and key_expr.attr in owner.cls.methods:
            return owner.cls.methods[key_expr.attr]
    raise Unsupported(f"{fi.module.site(key_expr)}: sort key `{short(key_expr, 40)}` is not a local function or lambda")


def _return_kinds(kf: FunctionInfo) -> list[tuple[object, ast.AST]]:
    if kf.is_lambda:
        return [(_kind(kf, kf.node.body), kf.node)]
    out = []
    for n in kf.local_nodes():
        if isinstance(n, ast.Return):
            if n.value is None:
                raise Unsupported(f"{kf.qualname}: bare return in a sort key")
            out.append((_kind(kf, n.value), n))
    if not out:
        raise Unsupported(f"{kf.qualname}: no return")
    return out


def _fmt_kind(k) -> str:
    return k if isinstance(k, str) else "(" + ", ".join(_fmt_kind(x) for x in k[1:]) + ")" if k[0] == "tuple" else " | ".join(_fmt_kind(x) for x in k[1:])


@rule("C11.R8")
def r8_total_order_key(corpus: Corpus, rep: Report, tier: str):
    _use(corpus)
    rep.rule("C11.R8", "footnote sort keys are total: one comparable kind on all returns, or every label the renderer can create converts with int()")
    _, pred, _, _ = _classifier(corpus.func(DEF_FN))
    sites = []
    cf = corpus.func(f"{TRANS}:CollectFootnotes.apply")
    it_ = _collector_parts(cf).iter
    it_ = _deref(cf, it_) if isinstance(it_, ast.Name) else it_
    if isinstance(it_, ast.Call) and kwarg(it_, "key") is not None:
        sites.append((cf, kwarg(it_, "key")))
    sf = corpus.func(f"{TRANS}:SortFootnotes.apply")
    for _sn, kexpr_, _v in _sorter_model(sf):
        if kexpr_ is not None:
            sites.append((sf, kexpr_))
    for fi, kexpr in sites:
        kf = _key_function(fi, kexpr)
        rep.saw_function(kf.fq)
        kinds = _return_kinds(kf)
        distinct = []
        for k, _n in kinds:
            if k not in distinct:
                distinct.append(k)
        key = f"{kf.fq}|sort key kind"
        site = kf.site()
        if len(distinct) == 1 and not (isinstance(distinct[0], tuple) and distinct[0][0] == "mixed"):
            rep.ok("C11.R8", key, site, _fmt_kind(distinct[0]))
            continue
        # heterogeneous: harmless only if the fallback return is unreachable for every label MyST can create
        conv = [n for n in kf.local_nodes() if isinstance(n, ast.Call) and dotted(n.func) == "int"]
        in_try = conv and all(any(isinstance(a, ast.Try) for a in ancestors(c)) for c in conv)
        desc = " / ".join(_fmt_kind(k) for k in distinct)
        if not conv:
            rep.violation("C11.R8", key, site, f"the sort key returns {desc} on different paths: two footnotes whose keys differ in kind cannot be compared and sorted() raises TypeError")
        elif in_try and pred == "isdecimal":
            rep.assumed("C11.R8", key, site, f"returns {desc}, but manual labels satisfy str.isdecimal() and auto labels are str(int): int() never fails, the fallback is dead for MyST footnotes")
        else:
            rep.violation(
                "C11.R8",
                key,
                site,
                f"the sort key returns {desc} on different paths while manual labels are admitted by str.{pred}() ({DIGIT_PREDICATES.get(pred, '')}): a label such as '²' takes the fallback, and comparing it with any int key raises TypeError inside sorted() - the whole document fails instead of being ordered",
            )
    rep.expect_min("C11.R8", 2, "collector key and sorter key")


# ---------------------------------------------------------------------------
# R9 - the footnote transition is placed where docutils allows one


def _class_set(f: FunctionInfo, spec: ast.expr) -> set[str] | None:
    """resolved class names of an isinstance class spec: ``C``, ``(C, D)``, ``C | D``"""
    if isinstance(spec, ast.Tuple):
        parts = [_class_set(f, e) for e in spec.elts]
    elif isinstance(spec, ast.BinOp) and isinstance(spec.op, ast.BitOr):
        parts = [_class_set(f, spec.left), _class_set(f, spec.right)]
    else:
        d = dotted(spec)
        return {f.module.resolve(d)} if d else None
    if any(p is None for p in parts):
        return None
    return set().union(*parts)


_LAST_CLASS_SET: dict = {}


def _is_footnote_test(f: FunctionInfo, e: ast.AST):
    """(subject, negated) for ``isinstance(subject, <classes incl. nodes.footnote>)`` / ``not isinstance(...)``;
    the class set of the last match is kept in ``_LAST_CLASS_SET['classes']``"""
    neg = False
    while isinstance(e, ast.UnaryOp) and isinstance(e.op, ast.Not):
        e, neg = e.operand, not neg
    if isinstance(e, ast.Call) and dotted(e.func) == "isinstance" and len(e.args) == 2:
        cs = _class_set(f, e.args[1])
        if cs is not None and "docutils.nodes.footnote" in cs:
            _LAST_CLASS_SET["classes"] = cs
            return e.args[0], neg
    return None


def _docutils_ancestors(cls_dotted: str) -> set[str]:
    """the class and its base classes inside docutils.nodes (read from docutils/nodes.py)"""
    corpus = _CUR["corpus"]
    m = corpus.sibling("docutils/nodes.py")
    out, work = set(), [cls_dotted.rsplit(".", 1)[-1]]
    while work:
        name = work.pop()
        if f"docutils.nodes.{name}" in out:
            continue
        out.add(f"docutils.nodes.{name}")
        ci = m.classes.get(name)
        if ci is not None:
            work += [dotted(b_).rsplit(".", 1)[-1] for b_ in ci.node.bases if dotted(b_)]
    return out


def _docutils_element_descendants(cls_dotted: str) -> set[str]:
    """the element classes of docutils.nodes that are (subclasses of) ``cls_dotted`` (read from docutils/nodes.py)"""
    corpus = _CUR["corpus"]
    cache = corpus.cache("c11-docutils-node-ancestors", lambda: {})
    m = corpus.sibling("docutils/nodes.py")
    if not cache:
        for name in m.classes:
            if "." not in name:
                cache[f"docutils.nodes.{name}"] = _docutils_ancestors(f"docutils.nodes.{name}")
    return {c for c, anc in cache.items() if cls_dotted in anc and "docutils.nodes.Element" in anc and c != "docutils.nodes.Element"}


# besides the classes docutils' Transitions skips (title, subtitle), only messages may be ignored in front of the
# footnote block: everything else a document can start with (raw HTML, comments, targets, paragraphs ...) is content
NOT_CONTENT_EITHER = {"docutils.nodes.system_message"}


def _too_wide(class_set: set[str], also_allowed: set[str] = frozenset()) -> list[str]:
    """element classes covered by ``class_set`` that are neither leading nodes, messages nor ``also_allowed``"""
    allowed = _transition_header_classes() | NOT_CONTENT_EITHER | set(also_allowed)
    covered = set()
    for c in class_set:
        covered |= _docutils_element_descendants(c)
    return sorted(x.rsplit(".", 1)[-1] for x in covered - allowed)


def _transition_header_classes() -> set[str]:
    """The node classes docutils' Transitions transform skips when it decides that a transition 'begins' the
    document (read from docutils/transforms/misc.py): a transition directly behind them is an error."""
    corpus = _CUR["corpus"]
    m = corpus.sibling("docutils/transforms/misc.py")
    fn = m.functions.get("Transitions.visit_transition")
    if fn is None:
        raise AnchorMissing("docutils Transitions.visit_transition not found")
    out = set()
    for n in fn.local_nodes():
        if isinstance(n, ast.Call) and dotted(n.func) == "isinstance" and len(n.args) == 2 and isinstance(n.args[0], ast.Subscript) and isinstance(n.args[0].slice, ast.Constant) and isinstance(n.args[0].slice.value, int) and n.args[0].slice.value >= 0:
            cs = _class_set(fn, n.args[1])
            if cs:
                out |= {c if c.startswith("docutils.") else "docutils." + c for c in cs}
    if not out:
        raise Unsupported("docutils Transitions.visit_transition: leading-node classes not understood")
    return out


def _some_child_is_not_a_footnote(f: FunctionInfo, t: ast.expr, holds: bool) -> str | None:
    """The guard fact ``t`` (true iff ``holds``) is meant to say 'some child of the document is not a footnote'.
    Returns a description if its shape provably says something else; None if right or not of a decided shape."""
    t = _deref(f, t) if isinstance(t, ast.Name) else t
    while isinstance(t, ast.UnaryOp) and isinstance(t.op, ast.Not):
        t, holds = t.operand, not holds
    if isinstance(t, ast.Name):
        t = _deref(f, t)
    # all(...) / any(...) over the document's children
    if isinstance(t, ast.Call) and dotted(t.func) in ("all", "any") and len(t.args) == 1 and isinstance(t.args[0], (ast.GeneratorExp, ast.ListComp)) and len(t.args[0].generators) == 1:
        g = t.args[0].generators[0]
        ft = _is_footnote_test(f, t.args[0].elt)
        over_children = any(_is_document(x) for x in ast.walk(g.iter))
        if ft is None or not over_children or not (isinstance(g.target, ast.Name) and _is_name(ft[0], g.target.id)) or g.ifs:
            return None
        q, inner_neg = dotted(t.func), ft[1]
        # 'some child is not a footnote' == any(not F) == not all(F)
        right = (q == "any" and inner_neg and holds) or (q == "all" and not inner_neg and not holds)
        if right:
            tested = _LAST_CLASS_SET.get("classes", set())
            missing = sorted(c.rsplit(".", 1)[-1] for c in _transition_header_classes() if not (_docutils_ancestors(c) & tested))
            wide = _too_wide(tested, {"docutils.nodes.footnote"})
            if wide and not missing:
                return f"children of class {', '.join(wide[:6])}{' ...' if len(wide) > 6 else ''} are taken for 'no content' too (`{short(t, 70)}`): a document that starts with e.g. an HTML block, a comment or a target and otherwise holds footnotes loses its configured transition, although docutils only objects to a transition directly behind the title/subtitle"
            if missing:
                return f"the children that may precede the footnote block without separating it from the start of the document are taken to be footnotes only, not {'/'.join(missing)} (`{short(t, 70)}`): docutils' DocTitle transform promotes a lone heading to the document title/subtitle before the footnotes are collected, and docutils' Transitions transform reports a transition directly behind them ('Document or section may not begin with a transition'), e.g. `# Title[^a]` + `[^a]: text`"
            return None
        words = {("all", False, True): "all children are footnotes", ("any", False, True): "some child is a footnote", ("any", False, False): "no child is a footnote", ("all", True, True): "no child is a footnote", ("all", True, False): "some child is a footnote", ("any", True, False): "all children are footnotes"}
        return f"the transition is only added when {words.get((q, inner_neg, holds), 'a different condition holds')} (`{short(t, 60)}`)"
    # the class test is applied to ONE child picked from the document (by position, by next(), by pop())
    # instead of being quantified over all of them
    ft = _is_footnote_test(f, t)
    if ft is not None:
        subj = _deref(f, ft[0]) if isinstance(ft[0], ast.Name) else ft[0]
        picked = _one_child_picked(f, subj)
        if picked:
            return f"one {picked} child decides for all of them (`{short(t, 60)}`)"
    return None


def _one_child_picked(f: FunctionInfo, subj: ast.expr, depth: int = 0) -> str | None:
    """'fixed' / 'selected' if ``subj`` denotes a single child taken out of the document's children"""
    if depth > 3:
        return None
    subj = _deref(f, subj) if isinstance(subj, ast.Name) else subj

    def over_document(e: ast.AST) -> bool:
        for x in ast.walk(e):
            if _is_document(x):
                return True
            if isinstance(x, ast.Name) and isinstance(x.ctx, ast.Load) and x.id not in f.params:
                v = _single_assign(f, x.id)
                if v is not None and any(_is_document(y) for y in ast.walk(v)):
                    return True
        return False

    if isinstance(subj, ast.Subscript) and not isinstance(subj.slice, ast.Slice) and over_document(subj.value):
        return "fixed" if isinstance(subj.slice, (ast.Constant, ast.UnaryOp)) else "selected"
    if isinstance(subj, ast.Call):
        d = dotted(subj.func) or ""
        if d == "next" and subj.args and over_document(subj.args[0]):
            return "selected"
        if d in ("min", "max") and subj.args and over_document(subj.args[0]):
            return "selected"
        if isinstance(subj.func, ast.Attribute) and subj.func.attr == "pop" and over_document(subj.func.value):
            return "selected"
    if isinstance(subj, ast.IfExp):
        return _one_child_picked(f, subj.body, depth + 1) or _one_child_picked(f, subj.orelse, depth + 1)
    return None


def _tests_transition(fi: FunctionInfo, n: ast.AST) -> bool:
    """``isinstance(x, nodes.transition)`` or a comparison with the tag name 'transition'"""
    if isinstance(n, ast.Call) and dotted(n.func) == "isinstance" and len(n.args) == 2:
        return any(fi.module.resolve(dotted(x) or "") == "docutils.nodes.transition" for x in ast.walk(n.args[1]) if isinstance(x, (ast.Name, ast.Attribute)))
    if isinstance(n, ast.Compare):
        return any(isinstance(c, ast.Constant) and c.value == "transition" for c in [n.left, *n.comparators])
    return False


TRAVERSALS = {"findall", "traverse", "next_node", "walk", "walkabout", "last_child", "previous_sibling"}


def _descends(f: FunctionInfo) -> str | None:
    """How ``f`` goes down the node tree: a loop with a live back edge that re-binds a variable it reads,
    direct recursion, or a docutils traversal call; None if it only looks at one level."""
    cfg = get_cfg(f)
    for n in f.local_nodes():
        if isinstance(n, (ast.While, ast.For)) and n in cfg.succ:
            t_edge = ("T", n)
            if n not in cfg.reachable_from(t_edge):
                continue  # every path through the body leaves the loop: it never advances
            body_nodes = [x for st in n.body for x in ast.walk(st)]
            stored = {x.id for x in body_nodes if isinstance(x, ast.Name) and isinstance(x.ctx, ast.Store)}
            if isinstance(n, ast.For):
                stored |= {x.id for x in ast.walk(n.target) if isinstance(x, ast.Name)}
            loaded = {x.id for x in body_nodes if isinstance(x, ast.Name) and isinstance(x.ctx, ast.Load)}
            live = []
            for st in n.body:
                for x in ast.walk(st):
                    if isinstance(x, ast.Assign) and any(isinstance(t, ast.Name) and t.id in loaded for t in x.targets) and cfg.stmt_of(x) in cfg.succ and n in cfg.reachable_from(cfg.stmt_of(x)):
                        live.append(x)
            if isinstance(n, ast.For) or live:
                return f"loop at {f.module.site(n)}"
        if isinstance(n, ast.Call):
            d = dotted(n.func) or ""
            if d in (f.name, f"self.{f.name}"):
                return "recursion"
            if isinstance(n.func, ast.Attribute) and n.func.attr in TRAVERSALS:
                return f".{n.func.attr}()"
    return None


# docutils transforms that take nodes out of the document after the footnotes were collected (what precedes the
# footnote transition when it is added can be gone when Transitions looks at it); priorities are read from the sources
NODE_REMOVERS = {
    "docutils/transforms/parts.py": ("SectNum", "Contents"),
    "docutils/transforms/components.py": ("Filter",),
}


def _sibling_priority(corpus: Corpus, rel: str, cname: str) -> int:
    m = corpus.sibling(rel)
    ci = m.classes.get(cname)
    if ci is None:
        raise AnchorMissing(f"{rel}: class {cname} not found")
    for st_ in ci.node.body:
        if isinstance(st_, ast.Assign) and any(_is_name(t, "default_priority") for t in st_.targets) and isinstance(st_.value, ast.Constant) and isinstance(st_.value.value, int):
            return st_.value.value
    raise Unsupported(f"{rel}: {cname}.default_priority is not an integer literal")


def _class_priority(corpus: Corpus, ci) -> int:
    """default_priority of a package transform: integer arithmetic over docutils classes' priorities"""
    m = ci.module
    stmts = [x for x in ci.node.body if isinstance(x, ast.Assign) and any(_is_name(t, "default_priority") for t in x.targets)]
    if len(stmts) != 1:
        raise Unsupported(f"{ci.name}: expected one default_priority assignment")

    def ev_(e: ast.expr) -> int:
        if isinstance(e, ast.Constant) and isinstance(e.value, int) and not isinstance(e.value, bool):
            return e.value
        if isinstance(e, ast.Attribute) and e.attr == "default_priority":
            full = m.resolve(dotted(e.value) or "")
            modname, _, cname = full.rpartition(".")
            if modname.startswith("docutils."):
                return _sibling_priority(corpus, modname.replace(".", "/") + ".py", cname)
        if isinstance(e, ast.BinOp) and isinstance(e.op, (ast.Add, ast.Sub)):
            a_, b_ = ev_(e.left), ev_(e.right)
            return a_ + b_ if isinstance(e.op, ast.Add) else a_ - b_
        raise Unsupported(f"{ci.name}.default_priority: `{short(e, 50)}` not understood")

    return ev_(stmts[0].value)


def _recheck_before_transitions(corpus: Corpus, rep: Report, fi: FunctionInfo, tfi: FunctionInfo, ctor_stmt: ast.stmt) -> None:
    """R9 (d): CollectFootnotes decides at Footnotes+3 that something precedes the footnote transition, docutils judges
    at Transitions' priority; SectNum/Contents/Filter remove nodes in between. A pending transform scheduled between the
    last remover and Transitions must take the transition out again when only leading nodes are left in front of it."""
    key = f"{fi.fq}|footnote transition|re-checked after docutils removed pending/contents nodes, before Transitions"
    tcfg = get_cfg(tfi)
    tv = ctor_stmt.targets[0].id if isinstance(ctor_stmt, ast.Assign) and isinstance(ctor_stmt.targets[0], ast.Name) else None
    if tv is None:
        raise Unsupported("transition not bound to a local")
    pend = []
    for n in tfi.local_nodes():
        if isinstance(n, ast.Call) and tfi.module.resolve(dotted(n.func) or "") == "docutils.nodes.pending" and n.args and any(_is_name(x, tv) for a_ in n.args[1:] + [k.value for k in n.keywords] for x in ast.walk(a_)):
            pend.append(n)
    site = tfi.module.site(ctor_stmt)
    why = "what precedes the transition when it is added (a {contents} topic, the pending node of {sectnum}, html_meta pending nodes) is removed by docutils' SectNum/Contents/Filter transforms before its Transitions transform looks: `# Title[^a]`, a {contents} directive and `[^a]: text` end with the transition right behind the title and the docutils ERROR 'Document or section may not begin with a transition'"
    if not pend:
        rep.violation("C11.R9", key, site, "the footnote transition is attached for good, no pending transform re-checks it later: " + why)
        return
    removers = max(_sibling_priority(corpus, rel, c) for rel, cs in NODE_REMOVERS.items() for c in cs)
    trans_prio = _sibling_priority(corpus, "docutils/transforms/misc.py", "Transitions")
    for pc in pend:
        problems = []
        # registered on every path that attaches the transition
        reg = next((a_ for a_ in ancestors(pc) if isinstance(a_, ast.Call) and isinstance(a_.func, ast.Attribute) and a_.func.attr == "note_pending"), None)
        if reg is None:
            problems.append("the pending node is built but not registered with document.note_pending")
        else:
            pev = Events(tfi)
            pev.add("reg", reg)
            got = pev.paths("reg", ctor_stmt, EXIT)
            if got != {1}:
                problems.append(f"the re-check is registered {_fmt(got)} time(s) on the paths that build the transition")
        ci = corpus.find_class(tfi.module.resolve(dotted(pc.args[0]) or ""))
        if ci is None:
            raise Unsupported(f"{tfi.module.site(pc)}: pending transform `{short(pc.args[0], 40)}` is not a package class")
        prio = _class_priority(corpus, ci)
        if not (removers < prio < trans_prio):
            problems.append(f"{ci.name} runs at priority {prio}: it has to run after docutils' last node-removing transform ({removers}) and before Transitions ({trans_prio})")
        ap = ci.methods.get("apply")
        if ap is None:
            raise Unsupported(f"{ci.name} has no apply()")
        rep.saw_function(ap.fq)
        rm = [n for n in ap.local_nodes() if isinstance(n, ast.Call) and isinstance(n.func, ast.Attribute) and n.func.attr in ("remove", "replace_self", "pop")]
        if not rm:
            problems.append(f"{ci.name}.apply never removes the transition")
        else:
            acfg = get_cfg(ap)
            decided = False
            for t_, pol_ in acfg.guards(acfg.stmt_of(rm[0])):
                t_ = _deref(ap, t_) if isinstance(t_, ast.Name) else t_
                while isinstance(t_, ast.UnaryOp) and isinstance(t_.op, ast.Not):
                    t_, pol_ = t_.operand, not pol_
                if isinstance(t_, ast.Call) and dotted(t_.func) in ("all", "any") and len(t_.args) == 1 and isinstance(t_.args[0], (ast.GeneratorExp, ast.ListComp)) and len(t_.args[0].generators) == 1:
                    g_ = t_.args[0].generators[0]
                    e_ = t_.args[0].elt
                    neg_ = False
                    while isinstance(e_, ast.UnaryOp) and isinstance(e_.op, ast.Not):
                        e_, neg_ = e_.operand, not neg_
                    if not (isinstance(e_, ast.Call) and dotted(e_.func) == "isinstance" and len(e_.args) == 2 and isinstance(g_.target, ast.Name) and _is_name(e_.args[0], g_.target.id)):
                        continue
                    decided = True
                    cs = _class_set(ap, e_.args[1]) or set()
                    q_ = dotted(t_.func)
                    # remove iff every node in front of the transition is a leading node: all(L) holds / any(not L) fails
                    right = (q_ == "all" and not neg_ and pol_) or (q_ == "any" and neg_ and not pol_)
                    if not right:
                        problems.append(f"{ci.name}.apply removes the transition under `{short(t_, 60)}` taken as {'true' if pol_ else 'false'}: it has to go exactly when ALL nodes in front of it are leading nodes")
                    missing = sorted(c.rsplit(".", 1)[-1] for c in _transition_header_classes() if not (_docutils_ancestors(c) & cs))
                    if missing:
                        problems.append(f"{ci.name}.apply does not count {'/'.join(missing)} among the leading nodes")
                    wide = _too_wide(cs)
                    if wide:
                        problems.append(f"{ci.name}.apply also treats {', '.join(wide[:6])}{' ...' if len(wide) > 6 else ''} in front of the transition as 'nothing' (`{short(e_.args[1], 50)}`): docutils only objects to a transition directly behind the title/subtitle, so with e.g. an HTML block, a comment or a target before the footnotes the configured transition is removed although the document has content")
                    sl_ = [x for x in ast.walk(g_.iter) if isinstance(x, ast.Subscript) and isinstance(x.slice, ast.Slice)]
                    if not any(isinstance(x, ast.Attribute) and x.attr == "children" for x in ast.walk(g_.iter)) and not sl_:
                        problems.append(f"{ci.name}.apply does not look at the nodes in front of the transition (`{short(g_.iter, 40)}`)")
            if not decided:
                raise Unsupported(f"{ap.module.site(rm[0])}: condition for removing the transition not understood")
        if problems:
            rep.violation("C11.R9", key, tfi.module.site(pc), "; ".join(problems) + " - " + why)
        else:
            rep.ok("C11.R9", key, tfi.module.site(pc), f"{ci.name} at {prio} (removers <= {removers}, Transitions {trans_prio})")


@rule("C11.R9")
def r9_transition_placement(corpus: Corpus, rep: Report, tier: str):
    _use(corpus)
    rep.rule("C11.R9", "the footnote transition is attached only after inspecting the document's existing children: not first, not next to another transition - also one that ends the last (sub-)section, which docutils hoists later")
    fi = corpus.func(f"{TRANS}:CollectFootnotes.apply")
    cfg = get_cfg(fi)
    tsites = _transition_sites(fi)
    if not tsites:
        rep.listed("C11.R9", f"{fi.fq}|no transition built", fi.site())
        return
    tfi, tctor, outer = tsites[0]
    st = get_cfg(tfi).stmt_of(tctor)
    guards = [(fi, t) for t, _pol in cfg.guards(outer)]
    pols = {id(t): p_ for t, p_ in cfg.guards(outer)}
    if tfi is not fi:
        guards += [(tfi, t) for t, _pol in get_cfg(tfi).guards(st)]
        pols.update({id(t): p_ for t, p_ in get_cfg(tfi).guards(st)})

    def looks_at_document(f: FunctionInfo, t: ast.expr) -> bool:
        try:
            if _resolve_setting(f, t):
                return False  # a per-document option stored on the document, not a look at its children
        except Unsupported:
            pass
        roots: list[ast.AST] = []
        for x in ast.walk(t):
            if isinstance(x, ast.Name):
                roots.append(_deref(f, x))
        roots.append(t)
        for r in list(roots):
            for x in ast.walk(r):
                if isinstance(x, ast.Call):
                    h = _resolve_helper(f, x) if (isinstance(x.func, ast.Name) or (isinstance(x.func, ast.Attribute) and _is_name(x.func.value, "self"))) else None
                    if h is not None and not h.is_lambda:
                        roots.append(h.node)
        sees_doc = any(_is_document(x) and not (isinstance(parent(x), ast.Attribute) and parent(x).attr in ("settings", "reporter")) for r in roots for x in ast.walk(r))
        # a condition about an existing transition serves the other obligation (adjacency), not this one
        about_transition = any(_tests_transition(f, x) for r in roots for x in ast.walk(r))
        return sees_doc and not about_transition

    inspects_children = [t for f, t in guards if looks_at_document(f, t)]
    site = tfi.module.site(st)
    key = f"{fi.fq}|footnote transition|not the first element of the document"
    wrong = None
    for f, t in guards:
        if t in inspects_children:
            wrong = wrong or _some_child_is_not_a_footnote(f, t, pols.get(id(t), True))
    if wrong:
        rep.violation(
            "C11.R9",
            key,
            site,
            f"{wrong}; after the move the document starts with the footnote block exactly when ALL its children are footnotes, so the transition has to be added whenever SOME child is not a footnote (and only then): otherwise a configured transition goes missing, or a document of footnotes only begins with a transition",
        )
    elif inspects_children:
        rep.ok("C11.R9", key, site, short(inspects_children[0], 70))
    else:
        rep.violation("C11.R9", key, site, "the transition is appended without looking at the document's children: a document that consists of footnote definitions only then begins with a transition (docutils: 'Document or section may not begin with a transition')")
    # any test against the transition class / tag name in the function (guard or clean-up of a trailing transition)
    tests = []
    scope = list(fi.local_nodes())
    funcs = [fi]
    level, seen_h = [fi], {fi.fq}
    for _depth in range(2):
        nxt = []
        for f in level:
            for _call, h in _helper_calls(f):
                if h.fq not in seen_h:
                    seen_h.add(h.fq)
                    nxt.append(h)
                    funcs.append(h)
                    scope += list(h.local_nodes())
        level = nxt
    for n in scope:
        if _tests_transition(fi, n):
            tests.append(n)
    key = f"{fi.fq}|footnote transition|not adjacent to an existing transition"
    if tests:
        rep.ok("C11.R9", key, site, short(tests[0], 70))
    else:
        rep.violation(
            "C11.R9",
            key,
            site,
            "nothing checks whether the element the new transition will follow is itself a transition: a document whose last non-footnote element is a thematic break (`---`) gets two adjacent transitions and docutils reports 'At least one body element must separate transitions' (ERROR, without a source line)",
        )
    # (c) docutils' Transitions transform later moves a transition that ends the last (sub-)section up to the
    # document level, so the look-out for an existing final transition has to go down into the last section
    if tests:
        holders = [f for f in funcs if any(t in f.local_nodes() for t in tests)]
        descends = None
        for f in holders:
            descends = descends or _descends(f)
        key = f"{fi.fq}|footnote transition|a transition that ends the last section is seen too"
        if descends:
            rep.ok("C11.R9", key, holders[0].site(), descends)
        else:
            rep.violation(
                "C11.R9",
                key,
                holders[0].site(),
                f"{holders[0].qualname} tests for an existing transition without going down the tree (no loop that advances, no recursion, no tree traversal): a thematic break that ends the last section is only moved to the document level by docutils afterwards, so `# A`, `# B`, text, `---`, `[^x]: X` still gets two adjacent transitions and the docutils ERROR",
            )
    _recheck_before_transitions(corpus, rep, fi, tfi, st)
    rep.expect_min("C11.R9", 2, "not-first and not-adjacent")


# ---------------------------------------------------------------------------
# R10 - auto-numbered footnotes are ranked by their FIRST reference


def _refs_in_document_order(fi: FunctionInfo, it: ast.expr) -> str | None:
    """'fwd' if ``it`` enumerates document.autofootnote_refs front to back, 'rev' back to front."""
    direction = "fwd"
    while True:
        if isinstance(it, ast.Call) and dotted(it.func) in ("list", "tuple", "iter") and len(it.args) == 1:
            it = it.args[0]
        elif isinstance(it, ast.Call) and dotted(it.func) == "enumerate" and it.args:
            it = it.args[0]
        elif isinstance(it, ast.Call) and dotted(it.func) == "reversed" and len(it.args) == 1:
            direction = "rev" if direction == "fwd" else "fwd"
            it = it.args[0]
        else:
            break
    it = _deref(fi, it)
    if _doc_attr(it, "autofootnote_refs"):
        return direction
    return None


def _order_and_kind(fi: FunctionInfo, it: ast.expr):
    """(direction, 'refs' | 'labels'): ``it`` runs over the references themselves, or over a local list of their
    labels (``[n["refname"] for n in <refs> if ...]``) - the latter may be defined in an enclosing function."""
    d = _refs_in_document_order(fi, it)
    if d is not None:
        return d, "refs"
    direction = "fwd"
    while True:
        if isinstance(it, ast.Call) and dotted(it.func) in ("list", "tuple", "iter") and len(it.args) == 1:
            it = it.args[0]
        elif isinstance(it, ast.Call) and dotted(it.func) == "enumerate" and it.args:
            it = it.args[0]
        elif isinstance(it, ast.Call) and dotted(it.func) == "reversed" and len(it.args) == 1:
            direction = "rev" if direction == "fwd" else "fwd"
            it = it.args[0]
        else:
            break
    v, f = it, fi
    if isinstance(it, ast.Name):
        b = _binding(fi, it.id)
        if b is None:
            return None
        f, v, _ = b
    if isinstance(v, ast.ListComp) and len(v.generators) == 1 and isinstance(v.generators[0].target, ast.Name) and _is_refname_of(v.elt, v.generators[0].target.id):
        inner = _refs_in_document_order(f, v.generators[0].iter)
        if inner is not None:
            return ("fwd" if inner == direction else "rev"), "labels"
    return None


def _label_of_element(e: ast.expr, var: str, kind: str) -> bool:
    """``e`` is the label of the sequence element ``var``"""
    return _is_refname_of(e, var) if kind == "refs" else _is_name(e, var)


def _is_refname_of(e: ast.expr, var: str) -> bool:
    return isinstance(e, ast.Subscript) and _is_name(e.value, var) and isinstance(e.slice, ast.Constant) and e.slice.value == "refname"


def _occurrence_picked(kf: FunctionInfo, e: ast.expr) -> tuple[str, ast.AST]:
    """Which reference of a repeated label the rank expression ``e`` selects: ('first'|'last', construct)."""
    # L.index(x): first occurrence in L
    if isinstance(e, ast.Call) and isinstance(e.func, ast.Attribute) and e.func.attr == "index" and len(e.args) == 1 and isinstance(e.func.value, ast.Name):
        b = _binding(kf, e.func.value.id)
        if b is None:
            raise Unsupported(f"{kf.qualname}: `{e.func.value.id}` has no single binding")
        f, v, _ = b
        if isinstance(v, ast.ListComp) and len(v.generators) == 1 and isinstance(v.generators[0].target, ast.Name) and _is_refname_of(v.elt, v.generators[0].target.id):
            d = _refs_in_document_order(f, v.generators[0].iter)
            if d is None:
                raise Unsupported(f"{f.module.site(v)}: the label list is not built from document.autofootnote_refs")
            return ("first" if d == "fwd" else "last"), v
        if isinstance(v, ast.List) and not v.elts:
            name = e.func.value.id
            apps = [n for n in f.local_nodes() if isinstance(n, ast.Call) and isinstance(n.func, ast.Attribute) and _is_name(n.func.value, name) and n.func.attr in ("append", "insert", "extend", "reverse", "sort")]
            others = [n for n in apps if n.func.attr != "append"]
            if len(apps) == 1 and not others and len(apps[0].args) == 1:
                loop = next((a for a in ancestors(apps[0]) if isinstance(a, ast.For)), None)
                if loop is not None and isinstance(loop.target, ast.Name) and _is_refname_of(apps[0].args[0], loop.target.id):
                    d = _refs_in_document_order(f, loop.iter)
                    if d is not None:
                        return ("first" if d == "fwd" else "last"), loop
        raise Unsupported(f"{f.module.site(v)}: label list `{short(v, 50)}` not understood")
    # D[x] / D.get(x, default): whatever the dict construction kept for a repeated key
    cont = None
    if isinstance(e, ast.Subscript) and isinstance(e.value, ast.Name):
        cont = e.value
    elif isinstance(e, ast.Call) and isinstance(e.func, ast.Attribute) and e.func.attr == "get" and isinstance(e.func.value, ast.Name):
        cont = e.func.value
    if cont is not None:
        b = _binding(kf, cont.id)
        if b is None:
            raise Unsupported(f"{kf.qualname}: `{cont.id}` has no single binding")
        f, v, _ = b
        if isinstance(v, ast.DictComp) and len(v.generators) == 1:
            g = v.generators[0]
            ok_ = _order_and_kind(f, g.iter)
            idx = _enumerate_index_names([g])
            if ok_ is None or not (isinstance(v.value, ast.Name) and v.value.id in idx and isinstance(g.target, ast.Tuple) and len(g.target.elts) == 2 and isinstance(g.target.elts[1], ast.Name) and _label_of_element(v.key, g.target.elts[1].id, ok_[1])):
                raise Unsupported(f"{f.module.site(v)}: rank table `{short(v, 60)}` not understood")
            d = ok_[0]
            # a later item overwrites an earlier one with the same key
            return ("last" if d == "fwd" else "first"), v
        if (isinstance(v, ast.Dict) and not v.keys) or (isinstance(v, ast.Call) and dotted(v.func) == "dict" and not v.args and not v.keywords):
            stores = []
            for n in f.local_nodes():
                if isinstance(n, ast.Call) and isinstance(n.func, ast.Attribute) and _is_name(n.func.value, cont.id) and n.func.attr in ("setdefault", "update", "__setitem__"):
                    stores.append(n)
                if isinstance(n, ast.Assign) and any(isinstance(t, ast.Subscript) and _is_name(t.value, cont.id) for t in n.targets):
                    stores.append(n)
            if len(stores) != 1:
                raise Unsupported(f"{f.qualname}: rank table `{cont.id}` has {len(stores)} writers")
            st = stores[0]
            loop = next((a for a in ancestors(st) if isinstance(a, ast.For)), None)
            ok_ = _order_and_kind(f, loop.iter) if loop is not None else None
            if ok_ is None:
                raise Unsupported(f"{f.module.site(st)}: rank table is not filled in a loop over document.autofootnote_refs (or the list of their labels)")
            d, kind_ = ok_
            idx = _enumerate_index_names([loop])
            if isinstance(st, ast.Call) and st.func.attr == "setdefault" and len(st.args) == 2:
                k_, v_ = st.args
            elif isinstance(st, ast.Assign) and len(st.targets) == 1:
                k_, v_ = st.targets[0].slice, st.value
            else:
                raise Unsupported(f"{f.module.site(st)}: rank table writer not understood")
            if not (isinstance(loop.target, ast.Tuple) and len(loop.target.elts) == 2 and isinstance(loop.target.elts[1], ast.Name) and _label_of_element(k_, loop.target.elts[1].id, kind_) and isinstance(v_, ast.Name) and v_.id in idx):
                raise Unsupported(f"{f.module.site(st)}: rank table entry `{short(st, 50)}` is not label -> enumerate() index")
            if isinstance(st, ast.Call) and st.func.attr == "setdefault":
                keeps_first = True
            elif isinstance(st, ast.Assign):
                key_txt = unparse(st.targets[0].slice)
                cfg = get_cfg(f)
                keeps_first = any(isinstance(t, ast.Compare) and len(t.ops) == 1 and ((isinstance(t.ops[0], ast.NotIn) and pol) or (isinstance(t.ops[0], ast.In) and not pol)) and unparse(t.left) == key_txt and _is_name(t.comparators[0], cont.id) for t, pol in cfg.guards(cfg.stmt_of(st)))
            else:
                raise Unsupported(f"{f.module.site(st)}: rank table writer not understood")
            return ("first" if keeps_first == (d == "fwd") else "last"), st
        raise Unsupported(f"{f.module.site(v)}: rank table `{short(v, 50)}` not understood")
    raise Unsupported(f"{kf.qualname}: rank expression `{short(e, 50)}` not understood")


@rule("C11.R10")
def r10_first_reference_order(corpus: Corpus, rep: Report, tier: str):
    _use(corpus)
    rep.rule("C11.R10", "SortFootnotes ranks an auto-numbered footnote by the position of its FIRST reference in document.autofootnote_refs")
    sf = corpus.func(f"{TRANS}:SortFootnotes.apply")
    n_ranked = 0
    for sn, kexpr, _v in _sorter_model(sf):
        if kexpr is None:
            continue
        kf = _key_function(sf, kexpr)
        exprs = [kf.node.body] if kf.is_lambda else [n.value for n in kf.local_nodes() if isinstance(n, ast.Return) and n.value is not None]
        flat: list[ast.expr] = []
        while exprs:
            e = exprs.pop()
            if isinstance(e, ast.IfExp):
                exprs += [e.body, e.orelse]
            else:
                flat.append(e)
        for e in flat:
            if isinstance(e, ast.Constant):
                continue  # the rank of an unreferenced footnote
            n_ranked += 1
            which, construct = _occurrence_picked(kf, e)
            key = f"{kf.fq}|rank of a referenced footnote|{short(e, 60)}"
            site = kf.module.site(construct)
            if which == "first":
                rep.ok("C11.R10", key, site, "position of the first reference")
            else:
                rep.violation(
                    "C11.R10",
                    key,
                    site,
                    f"`{short(construct, 70)}` keeps the position of the LAST reference of a label that is referenced several times: in 'x[^a] y[^b] z[^a]' footnote b is numbered 1 and a 2, but auto-numbered footnotes are numbered in order of first reference",
                )
    if not n_ranked:
        raise Unsupported("SortFootnotes key function has no rank expression")
    rep.expect_min("C11.R10", 1, "the rank expression of SortFootnotes._sort_key")


# ---------------------------------------------------------------------------
# R11 - every unreferenced definition is reported exactly once


def _sub_of(e: ast.AST, var: str, key: str) -> bool:
    return isinstance(e, ast.Subscript) and _is_name(e.value, var) and isinstance(e.slice, ast.Constant) and e.slice.value == key


def _identifies(fi: FunctionInfo, e: ast.expr, var: str) -> bool | None:
    """Does the value of ``e`` differ for two different footnotes ``var``?  True: the node itself, its id,
    its ids or its (document-unique) name take part; False: ``var`` does not take part at all or only through
    attributes many footnotes share; None: not decidable here."""
    e = _deref(fi, e) if isinstance(e, ast.Name) and e.id != var else e
    uses = [x for x in ast.walk(e) if _is_name(x, var)]
    if not uses:
        return False
    ok = False
    for x in uses:
        p_ = parent(x)
        if _sub_of(p_, var, "names") or _sub_of(p_, var, "ids"):
            ok = True
        elif isinstance(p_, ast.Subscript) and p_.value is x:
            continue  # another attribute of the node (backrefs, dupnames, auto ...): shared by many footnotes
        elif isinstance(p_, ast.Attribute):
            return None  # node.line, node.source ...: not known to be unique
        else:
            ok = True  # the node object itself (dict key, tuple member, id(node))
    return ok


def _emissions_in(fi: FunctionInfo, root: ast.AST) -> list[ast.Call]:
    """create_warning calls (or calls of a helper that issues exactly one) below ``root``."""
    out = []
    for n in ast.walk(root):
        if not isinstance(n, ast.Call):
            continue
        d = dotted(n.func) or ""
        if d.rsplit(".", 1)[-1] == "create_warning":
            out.append(n)
        elif isinstance(n.func, ast.Name) or (isinstance(n.func, ast.Attribute) and _is_name(n.func.value, "self")):
            h = _resolve_helper(fi, n)
            if h is not None and not h.is_lambda and h.module is fi.module:
                inner = [c for c in h.local_nodes() if isinstance(c, ast.Call) and (dotted(c.func) or "").rsplit(".", 1)[-1] == "create_warning"]
                if inner:
                    hev = Events(h)
                    for c in inner:
                        hev.add("w", c)
                    cnt = hev.count("w", ENTRY)
                    if cnt != {1}:
                        raise Unsupported(f"{fi.module.site(n)}: helper {h.qualname} warns {_fmt(cnt)} times depending on its path")
                    out.append(n)
    return out


def _unreferenced_edges(fi: FunctionInfo, loop: ast.For, var: str) -> list:
    """CFG edges inside ``loop`` on which ``var['backrefs']`` is known to be empty."""
    edges = []
    for n in ast.walk(loop):
        if not isinstance(n, ast.If):
            continue
        for edge in ("T", "F"):
            for atom, pol in facts(n.test, edge == "T"):
                core = _deref(fi, atom) if isinstance(atom, ast.Name) else atom
                while isinstance(core, ast.UnaryOp) and isinstance(core.op, ast.Not):
                    core, pol = core.operand, not pol
                if isinstance(core, ast.Call) and dotted(core.func) in ("len", "bool") and len(core.args) == 1:
                    core = core.args[0]
                if _sub_of(core, var, "backrefs") and not pol:
                    edges.append((edge, n))
    return edges


@rule("C11.R11")
def r11_unreferenced_reported_once(corpus: Corpus, rep: Report, tier: str):
    _use(corpus)
    rep.rule("C11.R11", "UnreferencedFootnotesDetector: every definition of document.footnotes/autofootnotes without back-references yields exactly one [ref.footnote] warning (direct, or through a collection that keeps one entry per footnote)")
    fi = corpus.func(f"{TRANS}:UnreferencedFootnotesDetector.apply")
    rep.saw_function(fi.fq)
    cfg = get_cfg(fi)
    covered: dict[str, ast.For] = {}
    n_loops = 0
    for loop in sorted([n for n in fi.local_nodes() if isinstance(n, ast.For)], key=lambda n: n.lineno):
        it = loop.iter
        filt_ifs: list[ast.expr] = []
        cvar = None
        if isinstance(it, (ast.ListComp, ast.GeneratorExp)) and len(it.generators) == 1 and isinstance(it.generators[0].target, ast.Name) and _is_name(it.elt, it.generators[0].target.id):
            filt_ifs, cvar, it = it.generators[0].ifs, it.generators[0].target.id, it.generators[0].iter
        regs = {x.attr for x in ast.walk(it) if isinstance(x, ast.Attribute) and _doc_attr(x, x.attr)} & FOOTNOTE_REGISTRIES
        if not regs:
            continue
        if not isinstance(loop.target, ast.Name):
            raise Unsupported(f"{fi.module.site(loop)}: registry loop with a structured target")
        n_loops += 1
        var = loop.target.id
        site = fi.module.site(loop)
        for r_ in regs:
            covered.setdefault(r_, loop)
        tag = "+".join(sorted(regs))
        ev = Events(fi)
        for c in _emissions_in(fi, loop):
            ev.add("report", c)
        # deferred reporting: entries put into a local collection inside the loop
        collections: dict[str, list[ast.AST]] = {}
        for n in ast.walk(loop):
            cname, keyx, valx = None, None, None
            if isinstance(n, ast.Call) and isinstance(n.func, ast.Attribute) and isinstance(n.func.value, ast.Name) and n.func.attr in ("append", "add", "setdefault") and n.args:
                cname = n.func.value.id
                if n.func.attr == "setdefault":
                    keyx, valx = n.args[0], (n.args[1] if len(n.args) > 1 else None)
                elif n.func.attr == "add":
                    keyx, valx = n.args[0], n.args[0]
                else:
                    valx = n.args[0]
            elif isinstance(n, ast.Assign) and len(n.targets) == 1 and isinstance(n.targets[0], ast.Subscript) and isinstance(n.targets[0].value, ast.Name) and n.targets[0].value.id != var:
                cname, keyx, valx = n.targets[0].value.id, n.targets[0].slice, n.value
            if cname is None or valx is None or cname == var:
                continue
            init = _single_assign(fi, cname)
            if not (isinstance(init, (ast.List, ast.Dict, ast.Set)) or (isinstance(init, ast.Call) and dotted(init.func) in ("list", "dict", "set") and not init.args)):
                continue
            if not any(_is_name(x, var) for x in ast.walk(valx)) and not (keyx is not None and any(_is_name(x, var) for x in ast.walk(keyx))):
                continue
            collections.setdefault(cname, []).append(n)
            ev.add("report", n)
            if keyx is not None:
                ident = _identifies(fi, keyx, var)
                key = f"{fi.fq}|{tag}|entries of `{cname}` are one per footnote"
                if ident is None:
                    raise Unsupported(f"{fi.module.site(n)}: cannot tell whether `{short(keyx, 50)}` is unique per footnote")
                if ident:
                    rep.ok("C11.R11", key, fi.module.site(n), short(keyx, 50))
                else:
                    rep.violation("C11.R11", key, fi.module.site(n), f"unreferenced footnotes are collected in `{cname}` under the key `{short(keyx, 60)}`, which several footnotes share: they overwrite each other and only one of them is reported, the others yield no warning")
        for cname, stores in collections.items():
            consumers = [n for n in fi.local_nodes() if isinstance(n, ast.For) and n is not loop and any(_is_name(x, cname) for x in ast.walk(n.iter)) and not any(a is n for s_ in stores for a in ancestors(s_))]
            key = f"{fi.fq}|{tag}|collected entries of `{cname}` are reported once each"
            if not consumers:
                rep.violation("C11.R11", key, site, f"unreferenced footnotes are collected in `{cname}` but no loop reports them")
                continue
            for cl in consumers:
                cev = Events(fi)
                for c in _emissions_in(fi, cl):
                    cev.add("report", c)
                per = set(cfg.counts(("T", cl), [cl], cev._weight("report")).get(cl, set()))
                slc = any(isinstance(x, ast.Subscript) and isinstance(x.slice, ast.Slice) for x in ast.walk(cl.iter))
                if per == {1} and not slc and cl in cfg.reachable_from(loop):
                    rep.ok("C11.R11", key, fi.module.site(cl))
                else:
                    rep.violation("C11.R11", key, fi.module.site(cl), f"the loop over `{cname}` issues {_fmt(per)} warning(s) per collected footnote" + (" and only looks at a slice of the collection" if slc else "") + "; required exactly one")
        # where is the footnote known to be unreferenced?
        in_filter = any(_sub_of(x, cvar, "backrefs") for f_ in filt_ifs for x in ast.walk(f_)) if cvar else False
        edges = _unreferenced_edges(fi, loop, var)
        key_u = f"{fi.fq}|{tag}|an unreferenced definition is reported exactly once"
        key_r = f"{fi.fq}|{tag}|a referenced definition is not reported"
        t_edge = ("T", loop)
        stops = [n for n in ast.walk(loop) if isinstance(n, (ast.Break, ast.Return)) and n in cfg.succ]
        if in_filter and not edges:
            got = ev.paths("report", t_edge, loop)
            esc = [b for b in stops if b in cfg.reachable_from(t_edge)]
        elif edges:
            got = ev.paths("report", t_edge, loop, must=edges)
            esc = [b for b in stops if any(b in cfg.reachable_from(e) for e in edges)]
            ref = ev.paths("report", t_edge, loop, avoid=edges)
            if ref <= {0}:
                rep.ok("C11.R11", key_r, site)
            else:
                rep.violation("C11.R11", key_r, site, f"a footnote of document.{tag} that has back-references is reported {_fmt(ref)} time(s) as unreferenced")
        else:
            got = ev.paths("report", t_edge, loop)
            esc = []
            if 1 in got or 2 in got:
                rep.violation("C11.R11", key_r, site, f"the loop over document.{tag} reports footnotes without testing their back-references")
                continue
        if esc:
            rep.violation("C11.R11", key_u, fi.module.site(esc[0]), f"the loop over document.{tag} is left (`{short(esc[0], 20)}`) once an unreferenced footnote was seen: the unreferenced definitions after it yield no warning")
        elif got == {1}:
            rep.ok("C11.R11", key_u, site)
        elif got <= {0, 1} and 1 in got:
            # further conditions on the unreferenced path: only the footnote's own name state may suppress the report
            extra = []
            for r_ in ev.nodes("report"):
                for t, _pol in cfg.guards(cfg.stmt_of(r_)):
                    if not any(_sub_of(x, var, k_) for x in ast.walk(t) for k_ in ("backrefs", "names", "dupnames")) and any(a is loop for a in ancestors(t)):
                        extra.append(t)
            if extra:
                rep.violation("C11.R11", key_u, site, f"whether an unreferenced footnote of document.{tag} is reported also depends on `{short(extra[0], 60)}`: some unreferenced definitions yield no warning")
            else:
                rep.ok("C11.R11", key_u, site, "except definitions whose name was moved to dupnames (reported by docutils)")
        else:
            rep.violation("C11.R11", key_u, site, f"an unreferenced footnote of document.{tag} is reported {_fmt(got)} time(s); required exactly once")
        # the warning type
        for c in [c for c in ev.nodes("report") if isinstance(c, ast.Call) and (dotted(c.func) or "").rsplit(".", 1)[-1] == "create_warning"]:
            wt, sub = kwarg(c, "wtype"), arg_or_kw(c, 1 if isinstance(c.func, ast.Attribute) else 2, "subtype")
            if not (isinstance(wt, ast.Constant) and wt.value == "ref" and isinstance(sub, ast.Constant) and sub.value == "footnote"):
                rep.violation("C11.R11", f"{fi.fq}|{tag}|warning type", fi.module.site(c), "the unreferenced-footnote warning is not typed ref.footnote")
    for reg, kind in (("footnotes", "manually numbered"), ("autofootnotes", "auto-numbered")):
        key = f"{fi.fq}|examines document.{reg}"
        if reg in covered:
            rep.ok("C11.R11", key, fi.module.site(covered[reg]))
        else:
            if not n_loops:
                raise Unsupported("UnreferencedFootnotesDetector.apply has no loop over a footnote registry")
            rep.violation("C11.R11", key, fi.site(), f"no loop examines document.{reg}: unreferenced {kind} definitions yield no warning")
    rep.expect_min("C11.R11", 4, "2 registries examined + at least 2 per-loop obligations (8 on the current tree)")


# ---------------------------------------------------------------------------
# R12 - a footnote name that docutils moved to dupnames is restored before docutils' Footnotes runs


def enclosing_function_of(node: ast.AST) -> FunctionInfo | None:
    for a in ancestors(node):
        if hasattr(a, "_fi"):
            return a._fi
    return None


@rule("C11.R12")
def r12_clashing_names_restored(corpus: Corpus, rep: Report, tier: str):
    _use(corpus)
    rep.rule("C11.R12", "footnote names share docutils' explicit-target name space (note_explicit_target): a name moved to dupnames by a clash is put back, for both registries and whatever the options say, by a transform that runs before docutils' Footnotes")
    dfn = corpus.func(DEF_FN)
    ev, _ = _scan_def(dfn)
    if not ev.nodes("note_target"):
        rep.listed("C11.R12", "footnote names are not registered as explicit targets", dfn.site(), "no clash with other target names possible")
        return
    base_prio = _docutils_footnotes_priority(corpus, rep)
    tm = corpus.mod(TRANS)
    found = []
    for ci in tm.classes.values():
        ap = ci.methods.get("apply")
        if ap is None:
            continue
        scope_ = [(n, None) for n in ap.local_nodes()]
        for call_, h_ in _helper_calls(ap):
            scope_ += [(n, call_) for n in h_.local_nodes()]
        for n, via in scope_:
            if not isinstance(n, ast.Assign):
                continue
            tg = [t for tt in n.targets for t in (tt.elts if isinstance(tt, (ast.Tuple, ast.List)) else [tt])]
            for t in tg:
                if isinstance(t, ast.Subscript) and isinstance(t.value, ast.Name) and isinstance(t.slice, ast.Constant) and t.slice.value == "names":
                    if any(_sub_of(x, t.value.id, "dupnames") for x in ast.walk(n.value)):
                        found.append((ci, ap, n, t.value.id, via))
    key = f"myst_parser.{TRANS}|names moved to dupnames are restored before docutils' Footnotes"
    if not found:
        rep.violation(
            "C11.R12",
            key,
            tm.site(tm.tree),
            "the definition renderer registers every footnote label with note_explicit_target, so a label equal to another explicit target name (`(a)=`, `{#a}`, `:name: a`, an equation label) ends up in dupnames - and docutils' Footnotes transform only looks at names: the reference `[^a]` becomes <problematic> ('Too many autonumbered footnote references', 'Duplicate target name') and the footnote is numbered last; no transform puts the name back",
        )
        rep.expect_min("C11.R12", 1, "the restore loop")
        return
    for ci, ap, st, var, via in found:
        rep.saw_function(ap.fq)
        site = ap.module.site(st)
        problems = []
        try:
            k, _st = _priority_offset(corpus, ci.name, base_prio)
            if k >= 0:
                problems.append(f"{ci.name} runs at Footnotes{k:+d}, i.e. not before docutils' Footnotes transform resolves and numbers the footnotes")
        except Unsupported as e:
            raise Unsupported(f"{ci.name}: {e}")
        for front, fq in (("docutils", "parsers.docutils_:Parser.get_transforms"), ("Sphinx", "parsers.sphinx_:MystParser.get_transforms")):
            gt = corpus.func(fq)
            if len(_class_mentions(gt, f"myst_parser.{TRANS}.{ci.name}")) != 1:
                problems.append(f"{ci.name} is not registered (once) in the {front} front end")
        anchor_ = get_cfg(ap).stmt_of(via if via is not None else st)
        p_opt, _d = _judge_guards(ap, anchor_, {})
        if via is not None:
            hfi = enclosing_function_of(st)
            if hfi is not None:
                p_opt += _judge_guards(hfi, get_cfg(hfi).stmt_of(st), {})[0]
        problems += [f"the restore {p_}" for p_ in p_opt]
        loop = next((a for a in ancestors(st) if isinstance(a, ast.For) and isinstance(a.target, ast.Name) and a.target.id == var), None)
        regs = {x.attr for x in ast.walk(loop.iter) if isinstance(x, ast.Attribute) and _doc_attr(x, x.attr)} if loop is not None else set()
        for reg in ("footnotes", "autofootnotes"):
            if reg not in regs:
                problems.append(f"document.{reg} is not covered")
        if problems:
            rep.violation("C11.R12", key, site, "; ".join(problems) + ": a footnote whose label clashes with a target name stays nameless for docutils' Footnotes transform (reference <problematic>, numbered last)")
        else:
            rep.ok("C11.R12", key, site, f"{ci.name}.apply, unconditional, both registries")
    rep.expect_min("C11.R12", 1, "the restore loop")


# ---------------------------------------------------------------------------
# R13 - the label semantics the documentation promises


@rule("C11.R13")
def r13_documented_label_semantics(corpus: Corpus, rep: Report, tier: str):
    _use(corpus)
    rep.rule("C11.R13", "footnote labels are matched the way the user documentation (docs/syntax/typography.md) says")
    doc = corpus.root / "docs" / "syntax" / "typography.md"
    key = "footnote labels|documented case-insensitive, matched verbatim"
    if not doc.is_file():
        rep.listed("C11.R13", key, "docs/syntax/typography.md", "documentation file not in this tree")
        return
    lines = doc.read_text(encoding="utf8").splitlines()
    hit = next((i for i, l in enumerate(lines) if "label" in l.lower() and "case-insensitive" in l.lower() and any("footnote" in x.lower() for x in lines[max(0, i - 6) : i + 1])), None)
    ref, dfn = corpus.func(REF_FN), corpus.func(DEF_FN)
    rev, _ = _scan_ref(ref)
    dev, _ = _scan_def(dfn)
    verbatim = bool(rev.nodes("refname_label")) and bool(dev.nodes("names_label"))
    if hit is None:
        rep.ok("C11.R13", key, "docs/syntax/typography.md", "the documentation does not promise case-insensitive labels")
    elif not verbatim:
        rep.ok("C11.R13", key, f"docs/syntax/typography.md:{hit + 1}", "labels are not used verbatim")
    else:
        rep.violation(
            "C11.R13",
            key,
            f"docs/syntax/typography.md:{hit + 1}",
            "the documentation says footnote labels are case-insensitive, but render_footnote_ref / render_footnote_reference use token.meta['label'] verbatim as refname / name: `see[^Note] and[^note]` with only `[^note]:` defined leaves `[^Note]` unresolved, and `[^a]:` / `[^A]:` are two footnotes",
        )


RULES = [
    r1_priorities_and_registration,
    r2_predicate_and_registries,
    r3_duplicate_path,
    r4_collector,
    r5_plugin_options,
    r6_duplicate_test_registry_kind,
    r7_settings_plumbing,
    r8_total_order_key,
    r9_transition_placement,
    r10_first_reference_order,
    r11_unreferenced_reported_once,
    r12_clashing_names_restored,
    r13_documented_label_semantics,
]


# ---------------------------------------------------------------------------
# self-test mutants (computed from the current tree)


def _seg(m: Module, node: ast.AST) -> str:
    return ast.get_source_segment(m.src, node) or ""


def _class_attr_stmt(m: Module, cname: str, attr: str) -> ast.Assign | None:
    for st in m.cls(cname).node.body:
        if isinstance(st, ast.Assign) and any(_is_name(t, attr) for t in st.targets):
            return st
    return None


def _option_reads(fi: FunctionInfo, root: ast.AST, name: str) -> list[ast.expr]:
    """expressions below ``root`` that read the per-document option ``name`` (attribute or getattr spelling)"""
    out = []
    for x in ast.walk(root):
        if isinstance(x, ast.Attribute) and isinstance(parent(x), ast.Attribute):
            continue
        if isinstance(x, (ast.Attribute, ast.Call)):
            try:
                srcs = _resolve_setting(fi, x)
            except Unsupported:
                continue
            if len(srcs) == 1 and srcs[0][0] == "setting" and srcs[0][1] == name and srcs[0][2] is x:
                out.append(x)
    return sorted(out, key=lambda n: (n.lineno, n.col_offset))


def _reread(n: ast.expr, new_name: str, holder: str | None = None) -> str:
    """source text reading another option (or the same one from another holder) in the spelling of ``n``"""
    if isinstance(n, ast.Attribute):
        obj = unparse(n.value) if holder is None else holder
        return f"{obj}.{new_name}"
    obj = unparse(n.args[0]) if holder is None else holder
    rest = "".join(", " + unparse(a) for a in n.args[2:])
    return f"getattr({obj}, \"{new_name}\"{rest})"


def mutants(corpus: Corpus):
    _use(corpus)
    out: list = []

    def add(mid, rule_id, m, node, text, expect, canary=False):
        if node is None:
            out.append((mid, "anchor for the edit not found on this tree"))
        else:
            out.append(Mutant(mid, rule_id, m.rel, splice(m.src, node, text), expect=expect, canary=canary))

    tm = corpus.mod(TRANS)
    base = corpus.mod(BASE)
    # ---- R1
    for mid, cname, new, canary in (
        ("c11-sort-after-footnotes", "SortFootnotes", "Footnotes.default_priority + 1", True),
        ("c11-detector-before-footnotes", "UnreferencedFootnotesDetector", "Footnotes.default_priority - 1", False),
        ("c11-collector-before-footnotes", "CollectFootnotes", "Footnotes.default_priority - 3", False),
        ("c11-collector-literal-priority", "CollectFootnotes", "600", False),
    ):
        st = _class_attr_stmt(tm, cname, "default_priority")
        add(mid, "C11.R1", tm, st.value if st else None, new, cname, canary)
    dm = corpus.mod("parsers.docutils_")
    d = dm.func("Parser.get_transforms")
    n = find_node(d, lambda n: _is_name(n, "UnreferencedFootnotesDetector"))
    add("c11-docutils-detector-unregistered", "C11.R1", dm, n, "SortFootnotes", "registers UnreferencedFootnotesDetector")
    sm = corpus.mod("parsers.sphinx_")
    s = sm.func("MystParser.get_transforms")
    n = find_node(s, lambda n: _is_name(n, "SortFootnotes"))
    add("c11-sphinx-collector-twice", "C11.R1", sm, n, "CollectFootnotes", "registers CollectFootnotes")
    xm = corpus.mod("sphinx_ext.main")
    su = xm.func("setup_sphinx")
    st = find_stmt(su, lambda n: isinstance(n, ast.Expr) and isinstance(n.value, ast.Call) and isinstance(n.value.func, ast.Attribute) and n.value.func.attr == "remove" and "Footnote" in unparse(n))
    add("c11-sphinx-detector-not-removed", "C11.R1", xm, st, "pass", "removes sphinx.transforms")
    if st is not None:
        # a registration guard with the wrong polarity: removal only when there is nothing to remove
        rc_ = st.value
        si_ = " " * st.col_offset
        add("c11-sphinx-detector-removed-only-when-absent", "C11.R1", xm, st, f"if {_seg(xm, rc_.args[0])} not in {_seg(xm, rc_.func.value)}:\n{si_}    {_seg(xm, st)}", "removes sphinx.transforms")
    st = find_stmt(su, lambda n: isinstance(n, ast.Expr) and isinstance(n.value, ast.Call) and isinstance(n.value.func, ast.Attribute) and n.value.func.attr == "add_transform")
    if st is not None:
        add("c11-sphinx-detector-only-with-parser", "C11.R1", xm, st, "if load_parser:\n        " + _seg(xm, st), "registers UnreferencedFootnotesDetector")
    # ---- R2
    ref, dfn = base.func("DocutilsRenderer.render_footnote_ref"), base.func("DocutilsRenderer.render_footnote_reference")
    rif = find_node(ref, lambda n: isinstance(n, ast.Attribute) and n.attr in DIGIT_PREDICATES and isinstance(parent(n), ast.Call))
    other = "isdecimal" if rif is not None and rif.attr != "isdecimal" else "isdigit"
    add("c11-ref-predicate-differs", "C11.R2", base, rif, f"{unparse(rif.value)}.{other}" if rif is not None else "", "manual/auto predicate")
    dif = find_node(dfn, lambda n: isinstance(n, ast.If) and any(isinstance(x, ast.Attribute) and x.attr in DIGIT_PREDICATES for x in ast.walk(n.test)))
    add("c11-def-polarity-flipped", "C11.R2", base, dif.test if dif is not None else None, f"not {_seg(base, dif.test)}" if dif is not None else "", "render_footnote_reference|manual")
    n = find_node(dfn, lambda n: isinstance(n, ast.Attribute) and n.attr == "note_footnote")
    add("c11-def-manual-into-auto-registry", "C11.R2", base, n, f"{unparse(n.value)}.note_autofootnote" if n is not None else "", "note_footnote(footnote)")
    st = find_stmt(ref, lambda n: isinstance(n, ast.Expr) and "note_autofootnote_ref" in unparse(n))
    add("c11-ref-not-in-autofootnote-refs", "C11.R2", base, st, "pass", "note_autofootnote_ref")
    st = find_stmt(ref, lambda n: isinstance(n, ast.Assign) and "'refname'" in unparse(n.targets[0]))
    add("c11-refname-normalised", "C11.R2", base, st.value if st is not None else None, f"{unparse(st.value)}.lower()" if st is not None else "", "refname")
    st = find_stmt(dfn, lambda n: isinstance(n, ast.Expr) and "note_explicit_target" in unparse(n))
    add("c11-def-no-explicit-target", "C11.R2", base, st, "pass", "note_explicit_target")
    st = find_stmt(dfn, lambda n: isinstance(n, ast.Expr) and "['names'].append" in unparse(n))
    if st is not None:
        add("c11-def-name-normalised", "C11.R2", base, st.value.args[0], f"{unparse(st.value.args[0])}.lower()", "names")
    st = find_stmt(ref, lambda n: isinstance(n, ast.AugAssign) and "Text" in unparse(n.value))
    add("c11-ref-manual-text-dropped", "C11.R2", base, st, "pass", "Text(label)")
    # defects hidden behind an extracted helper (the rules follow value-only predicate helpers and helpers that receive the node)
    rcall = parent(rif) if rif is not None else None
    if isinstance(rcall, ast.Call):
        add("c11-ref-predicate-differs-in-helper", "C11.R2", base, rcall, f"_is_manual_label({unparse(rif.value)})", "manual/auto predicate")
        if isinstance(out[-1], Mutant):
            out[-1].new_src += f"\n\ndef _is_manual_label(label: str) -> bool:\n    return label.{other}()\n"
    s_ref = find_stmt(ref, lambda n: isinstance(n, ast.Assign) and "'refname'" in unparse(n.targets[0]))
    s_note = find_stmt(ref, lambda n: isinstance(n, ast.Expr) and "note_footnote_ref" in unparse(n))
    if s_ref is not None and s_note is not None and s_ref.lineno < s_note.lineno:
        rv = unparse(s_ref.targets[0].value)
        src = splice(base.src, s_note, f"self._register_footnote_ref({rv}, {unparse(s_ref.value)})")
        src = splice(src, s_ref, "pass")
        helper = f"    def _register_footnote_ref(self, ref, name):\n        self.document.note_footnote_ref(ref)\n        ref[\"refname\"] = name\n\n"
        lines = src.splitlines(keepends=True)
        at = ref.node.lineno - 1 - len(ref.node.decorator_list)
        out.append(Mutant("c11-ref-registered-before-named-in-helper", "C11.R2", base.rel, "".join(lines[:at]) + helper + "".join(lines[at:]), expect="refname stored before note_footnote_ref"))
    else:
        out.append(("c11-ref-registered-before-named-in-helper", "refname store / note_footnote_ref not found in this order"))
    dupif = find_node(dfn, lambda n: isinstance(n, ast.If) and any(isinstance(x, ast.Compare) and isinstance(x.ops[0], (ast.In, ast.NotIn)) for x in ast.walk(n.test)))
    if dupif is not None:
        lab_ = next((unparse(x.left) for x in ast.walk(dupif.test) if isinstance(x, ast.Compare) and isinstance(x.ops[0], ast.In)), "target")
        src = splice(base.src, dupif.test, f"self._has_footnote_definition({lab_})")
        helper = "    def _has_footnote_definition(self, label):\n        return label in self.document.nameids\n\n"
        lines = src.splitlines(keepends=True)
        at = dfn.node.lineno - 1
        out.append(Mutant("c11-duplicate-helper-consults-nameids", "C11.R6", base.rel, "".join(lines[:at]) + helper + "".join(lines[at:]), expect="against document.nameids"))
    # the name is registered (docutils may attach a system message to the footnote) before the label exists (class of seed5 out-c11/1)
    s_names = find_stmt(dfn, lambda n: isinstance(n, ast.Expr) and "['names'].append" in unparse(n))
    s_tgt = find_stmt(dfn, lambda n: isinstance(n, ast.Expr) and "note_explicit_target" in unparse(n))
    if s_names is not None and s_tgt is not None and s_names.lineno < s_tgt.lineno:
        ni = " " * s_names.col_offset
        src = splice(base.src, s_tgt, "pass")  # later in the file first
        src = splice(src, s_names, _seg(base, s_names) + f"\n{ni}" + _seg(base, s_tgt))
        out.append(Mutant("c11-name-registered-before-label-exists", "C11.R2", base.rel, src, expect="label is the first child"))
    else:
        out.append(("c11-name-registered-before-label-exists", "names store / note_explicit_target not found in this order"))
    s_lab = find_stmt(dfn, lambda n: isinstance(n, ast.AugAssign) and "nodes.label" in unparse(n.value))
    s_body = find_stmt(dfn, lambda n: isinstance(n, ast.With) and "render_children" in unparse(n))
    if s_lab is not None and s_body is not None and s_lab.lineno < s_body.lineno:
        bi = " " * s_body.col_offset
        cond = next((a for a in ancestors(s_lab) if isinstance(a, ast.If)), None)
        cond_txt = _seg(base, cond.test) if cond is not None else "True"
        src = splice(base.src, s_body, _seg(base, s_body) + f"\n{bi}if {cond_txt}:\n{bi}    footnote.insert(0, {_seg(base, s_lab.value)})")
        src = splice(src, s_lab, "pass")
        out.append(Mutant("c11-label-inserted-after-body", "C11.R2", base.rel, src, expect="manual|"))
    # ---- R3
    dup = find_node(dfn, lambda n: isinstance(n, ast.If) and any(isinstance(x, ast.Compare) and isinstance(x.ops[0], (ast.In, ast.NotIn)) for x in ast.walk(n.test)))
    if dup is not None:
        ret = next((x for x in dup.body if isinstance(x, ast.Return)), None)
        add("c11-duplicate-falls-through", "C11.R3", base, ret, "pass", "no registration")
        w = next((x for x in dup.body if isinstance(x, ast.Expr) and "create_warning" in unparse(x)), None)
        add("c11-duplicate-silent", "C11.R3", base, w, "pass", "warnings")
        if w is not None:
            wt = kwarg(w.value, "wtype")
            add("c11-duplicate-warning-retyped", "C11.R3", base, wt, '"myst"', "warning type")
            add("c11-duplicate-warned-twice", "C11.R3", base, w, _seg(base, w) + "\n            " + _seg(base, w), "warnings")
        # ---- R6
        lab = next((unparse(x.left) for x in ast.walk(dup.test) if isinstance(x, ast.Compare) and isinstance(x.ops[0], ast.In)), "target")
        # revert of fix 65fc250: the document-wide name table decides what a duplicate is
        add("c11-revert-65fc250-duplicate-test-nameids", "C11.R6", base, dup.test, f"{lab} in self.document.nameids", "against document.nameids")
        add("c11-duplicate-test-ids-table", "C11.R6", base, dup.test, f"{lab} in self.document.ids", "against document.ids")
        # look-up spellings of the same mistakes (class of seed6 out-c11/2)
        add("c11-duplicate-test-id-lookup", "C11.R6", base, dup.test, f"isinstance(self.document.ids.get(nodes.make_id({lab})), nodes.footnote)", "labels compared verbatim")
        add("c11-duplicate-test-nameids-lookup", "C11.R6", base, dup.test, f"self.document.nameids.get({lab}) is not None", "against document.nameids")
        # labels compared in a folded form although they are stored verbatim (class of seed4 out-c11/3)
        mcmp = next((x for x in ast.walk(dup.test) if isinstance(x, ast.Compare) and isinstance(x.ops[0], ast.In) and isinstance(x.left, ast.Name)), None)
        if mcmp is not None:
            l_, c_ = _seg(base, mcmp.left), _seg(base, mcmp.comparators[0])
            add("c11-duplicate-test-case-insensitive", "C11.R6", base, mcmp, f"{l_}.lower() in [_n.lower() for _n in {c_}]", "labels compared verbatim")
            add("c11-duplicate-test-docutils-normalised", "C11.R6", base, mcmp, f"nodes.fully_normalize_name({l_}) in [nodes.fully_normalize_name(_n) for _n in {c_}]", "labels compared verbatim")
            add("c11-duplicate-test-stored-names-folded", "C11.R6", base, mcmp, f"{l_} in [_n.casefold() for _n in {c_}]", "labels compared verbatim")
        else:
            out.append(("c11-duplicate-test-case-insensitive", "membership comparison of the duplicate test not found"))
        reg = next((x for x in ast.walk(dup.test) if isinstance(x, ast.BinOp) and isinstance(x.op, ast.Add) and _doc_attr(x.left, "footnotes") and _doc_attr(x.right, "autofootnotes")), None)
        if reg is not None:
            add("c11-duplicate-test-manual-only", "C11.R6", base, reg, _seg(base, reg.left), "covers document.autofootnotes")
            add("c11-duplicate-test-auto-only", "C11.R6", base, reg, _seg(base, reg.right), "covers document.footnotes")
        else:
            out.append(("c11-duplicate-test-manual-only", "duplicate test is not over footnotes + autofootnotes"))
    # registration the duplicate test relies on moved behind the rendering of the body (class of seed out-c11/2)
    body_with = find_stmt(dfn, lambda n: isinstance(n, ast.With) and "render_children" in unparse(n))
    if body_with is not None:
        ind = " " * body_with.col_offset
        for mid, needle, exp in (
            ("c11-autofootnote-registered-after-body", "note_autofootnote(", "auto|note_autofootnote(footnote) before the body"),
            ("c11-footnote-registered-after-body", "note_footnote(", "manual|note_footnote(footnote) before the body"),
        ):
            st = find_stmt(dfn, lambda n, needle=needle: isinstance(n, ast.Expr) and isinstance(n.value, ast.Call) and needle in unparse(n.value) and n.lineno < body_with.lineno)
            if st is None:
                out.append((mid, "registry call before the body not found"))
                continue
            guard = next((a for a in ancestors(st) if isinstance(a, ast.If)), None)
            cond = _seg(base, guard.test) if guard is not None else "True"
            if guard is not None and st in guard.orelse:
                cond = f"not {cond}"
            tail = f"\n{ind}if {cond}:\n{ind}    {_seg(base, st)}"
            src = splice(base.src, body_with, _seg(base, body_with) + tail)  # later in the file first
            src = splice(src, st, "pass")
            out.append(Mutant(mid, "C11.R6", base.rel, src, expect=exp))
        st = find_stmt(dfn, lambda n: isinstance(n, ast.Expr) and "['names'].append" in unparse(n) and n.lineno < body_with.lineno)
        if st is not None:
            src = splice(base.src, body_with, _seg(base, body_with) + f"\n{ind}{_seg(base, st)}")
            src = splice(src, st, "pass")
            out.append(Mutant("c11-name-stored-after-body", "C11.R6", base.rel, src, expect="gets the label before the body"))
    # ---- R4
    cf = tm.func("CollectFootnotes.apply")
    try:
        loop, removes, appends = _collector_parts(cf)
    except Unsupported:
        loop = None
    if loop is not None and len(loop.body) == 2:
        a, b = loop.body
        add("c11-collector-attach-before-detach", "C11.R4", tm, loop, _seg(tm, loop).replace(_seg(tm, a), "\0").replace(_seg(tm, b), _seg(tm, a)).replace("\0", _seg(tm, b)), "detach before attach")
        add("c11-collector-copy-not-move", "C11.R4", tm, a, "pass", "detach once")
        add("c11-collector-descending", "C11.R4", tm, loop.iter, _seg(tm, loop.iter)[:-1] + ", reverse=True)", "ascending")
        # loop indented under the transition test
        tif = find_node(cf, lambda n: isinstance(n, ast.If) and bool(_option_reads(cf, n.test, "myst_footnote_transition")))
        if tif is not None and tif.end_lineno < loop.lineno:
            # the `if` is moved below the key function the loop needs, the loop is indented into it
            out.append(Mutant("c11-collector-under-transition-test", "C11.R4", tm.rel, _move_loop_into_if(tm, tif, loop), expect="move loop|guard"))
    gather = find_node(cf, lambda n: isinstance(n, ast.For) and any(_doc_attr(x, "autofootnotes") for x in ast.walk(n.iter)))
    if gather is not None:
        n = next((x for x in ast.walk(gather.iter) if _doc_attr(x, "autofootnotes")), None)
        add("c11-collector-skips-autofootnotes", "C11.R4", tm, n, "[]", "gathers document.autofootnotes")
        # the definitions are looked up in the tree instead of the registries (class of seed8 out-c11/1)
        add("c11-collector-walks-the-tree-findall-helper", "C11.R4", tm, gather.iter, "list(findall(self.document)(nodes.footnote))", "gathers document.autofootnotes")
        add("c11-collector-walks-the-tree-method", "C11.R4", tm, gather.iter, "self.document.findall(nodes.footnote)", "gathers document.footnotes")
    ret_if = find_node(cf, lambda n: isinstance(n, ast.If) and any(isinstance(x, ast.Return) for x in n.body))
    if ret_if is not None:
        n = next(iter(_option_reads(cf, ret_if.test, "myst_footnote_sort")), None)
        add("c11-collector-guarded-by-transition-setting", "C11.R4", tm, n, _reread(n, "myst_footnote_transition") if n is not None else "", "guard", False)
        add("c11-collector-always-runs", "C11.R4", tm, ret_if.test, "False", "move loop|guard")
    st = find_stmt(cf, lambda n: isinstance(n, ast.AugAssign) and _is_name(n.value, "transition"))
    add("c11-transition-into-last-parent", "C11.R4", tm, st.target if st is not None else None, "self.document.children[-1]", "transition|")
    tctor = find_stmt(cf, lambda n: isinstance(n, ast.Assign) and "nodes.transition" in unparse(n.value))
    tif = find_node(cf, lambda n: isinstance(n, ast.If) and bool(_option_reads(cf, n.test, "myst_footnote_transition")))
    if tif is not None:
        n = next(iter(_option_reads(cf, tif.test, "myst_footnote_transition")), None)
        add("c11-transition-ignores-its-setting", "C11.R4", tm, n, "True", "transition|")
    sf = tm.func("SortFootnotes.apply")
    n = find_node(sf, lambda n: isinstance(n, ast.Attribute) and n.attr == "autofootnote_refs")
    add("c11-sorter-wrong-reference-list", "C11.R4", tm, n, f"{unparse(n.value)}.footnote_refs" if n is not None else "", "sorts document.autofootnotes")
    n = find_node(sf, lambda n: isinstance(n, ast.Call) and isinstance(n.func, ast.Attribute) and n.func.attr == "sort")
    add("c11-sorter-sorts-a-copy", "C11.R4", tm, n, f"sorted({unparse(n.func.value)}, key={unparse(kwarg(n, 'key'))})" if n is not None and kwarg(n, "key") is not None else "", "SortFootnotes")
    # ---- R5
    pm = corpus.mod("parsers.mdit")
    cm = pm.func("create_md_parser")
    use = find_node(cm, lambda n: isinstance(n, ast.Call) and isinstance(n.func, ast.Attribute) and n.func.attr == "use" and n.args and _is_name(n.args[0], "footnote_plugin"))
    if use is not None:
        for opt, canary in (("always_match_refs", False), ("inline", False), ("move_to_end", False)):
            v = kwarg(use, opt)
            add(f"c11-plugin-{opt}-flipped", "C11.R5", pm, v, str(not v.value) if isinstance(v, ast.Constant) else "", opt, canary)
        kws = [k for k in use.keywords if k.arg == "inline"]
        if kws:
            recv = _seg(pm, use.func.value)
            rest = ", ".join(f"{k.arg}={unparse(k.value)}" for k in use.keywords if k.arg != "inline")
            add("c11-plugin-inline-left-to-default", "C11.R5", pm, use, f"{recv}.use(footnote_plugin, {rest})", "inline")
    # span rule of attrs_plugin placed before footnote_ref (class of seed3 out-c11/1)
    ause = find_node(cm, lambda n: isinstance(n, ast.Call) and isinstance(n.func, ast.Attribute) and n.func.attr == "use" and n.args and _is_name(n.args[0], "attrs_plugin") and kwarg(n, "spans") is not None)
    if ause is not None and kwarg(ause, "span_after") is not None:
        sa = kwarg(ause, "span_after")
        add("c11-span-rule-after-image", "C11.R5", pm, sa, '"image"', "span rule after footnote_ref")
        add("c11-span-rule-after-link", "C11.R5", pm, sa, '"link"', "span rule after footnote_ref")
        recv = _seg(pm, ause.func.value)
        rest = ", ".join([_seg(pm, a) for a in ause.args] + [f"{k.arg}={_seg(pm, k.value)}" for k in ause.keywords if k.arg != "span_after"])
        add("c11-span-rule-left-to-default", "C11.R5", pm, ause, f"{recv}.use({rest})", "span rule after footnote_ref")
    else:
        out.append(("c11-span-rule-after-image", "use(attrs_plugin, spans=..., span_after=...) not found"))
    # the per-document configuration memoised on the parser object (class of seed3 out-c11/2)
    for mid, modname, fq_ in (("c11-docutils-config-cached-on-parser", "parsers.docutils_", "Parser.parse"), ("c11-sphinx-config-cached-on-parser", "parsers.sphinx_", "MystParser.parse")):
        pmod = corpus.mod(modname)
        pfn = pmod.functions.get(fq_)
        cmp_call = find_node(pfn, lambda n: isinstance(n, ast.Call) and (dotted(n.func) or "").endswith("create_md_parser") and n.args) if pfn is not None else None
        if cmp_call is None or not isinstance(cmp_call.args[0], ast.Name):
            out.append((mid, "create_md_parser(config, ...) not found"))
            continue
        cname = cmp_call.args[0].id
        first = find_stmt(pfn, lambda n, cname=cname: (isinstance(n, ast.Assign) and any(_is_name(t, cname) for t in n.targets)) or (isinstance(n, ast.AnnAssign) and _is_name(n.target, cname) and n.value is not None))
        if first is None:
            out.append((mid, "no assignment of the configuration found"))
            continue
        fi_ = " " * first.col_offset
        val = _seg(pmod, first.value)
        add(mid, "C11.R7", pmod, first, f"{cname} = getattr(self, \"_myst_config\", None)\n{fi_}if {cname} is None:\n{fi_}    {cname} = self._myst_config = {val}", "configuration is built from this document")
    # the transforms take the footnote options from the build-wide configuration (class of seed5 out-c11/3)
    g_sort = next(iter(_option_reads(cf, cf.node, "myst_footnote_sort")), None)
    if g_sort is not None:
        add("c11-collector-reads-build-wide-config", "C11.R7", tm, g_sort, "self.document.settings.env.myst_config.footnote_sort", "read from the document settings")
        # revert-style: the transform reads a store the renderer does not write (other object / other name)
        holder_now = _holder_of(cf, g_sort)
        other = "self.document.settings" if holder_now == "document" else "self.document"
        add("c11-collector-reads-option-from-other-object", "C11.R7", tm, g_sort, _reread(g_sort, "myst_footnote_sort", other), "setting myst_footnote_sort")
        add("c11-collector-reads-unwritten-option-name", "C11.R7", tm, g_sort, _reread(g_sort, "myst_footnote_sorted"), "setting myst_footnote_sorted")
        helper_src = splice(tm.src, g_sort, "_footnote_option(self.document, \"sort\")") + (
            "\n\ndef _footnote_option(document, name):\n"
            "    env = getattr(document.settings, \"env\", None)\n"
            "    if env is not None:\n"
            "        return getattr(env.myst_config, f\"footnote_{name}\")\n"
            "    return getattr(document, f\"myst_footnote_{name}\", True)\n"
        )
        out.append(Mutant("c11-collector-option-helper-prefers-env-config", "C11.R7", tm.rel, helper_src, expect="read from the document settings"))
    else:
        out.append(("c11-collector-reads-build-wide-config", "settings.myst_footnote_sort read in CollectFootnotes.apply not found"))
    # ---- R12: revert of fix 25a867f and variants (clashing footnote names are not restored before docutils' Footnotes)
    sfa = tm.func("SortFootnotes.apply")
    rst = find_stmt(sfa, lambda n: isinstance(n, ast.Assign) and "['names']" in unparse(n) and "['dupnames']" in unparse(n.value))
    rloop = next((a for a in ancestors(rst) if isinstance(a, ast.For)), None) if rst is not None else None
    if rloop is not None:
        add("c11-revert-25a867f-clashing-names-not-restored", "C11.R12", tm, rloop, "pass", "restored before docutils' Footnotes", True)
        reg2 = next((x for x in ast.walk(rloop.iter) if isinstance(x, ast.BinOp) and isinstance(x.op, ast.Add)), None)
        add("c11-clashing-names-restored-for-auto-only", "C11.R12", tm, reg2, _seg(tm, reg2.right) if reg2 is not None else "", "restored before docutils' Footnotes")
        guard_if = find_node(sfa, lambda n: isinstance(n, ast.If) and any(isinstance(x, ast.Return) for x in n.body) and bool(_option_reads(sfa, n.test, "myst_footnote_sort")))
        if guard_if is not None and rloop.end_lineno < guard_if.lineno:
            src = splice(tm.src, guard_if, _seg(tm, guard_if) + "\n" + " " * rloop.col_offset + _seg(tm, rloop))
            out.append(Mutant("c11-clashing-names-restored-only-when-sorting", "C11.R12", tm.rel, splice(src, rloop, "pass"), expect="restored before docutils' Footnotes"))
    else:
        out.append(("c11-revert-25a867f-clashing-names-not-restored", "restore loop not found in SortFootnotes.apply"))
    # ---- R9: revert of fix 404c5d4 (promoted title/subtitle not counted)
    tif2 = find_node(cf, lambda n: isinstance(n, ast.If) and bool(_option_reads(cf, n.test, "myst_footnote_transition")))
    qcall = next((x for x in ast.walk(tif2.test) if isinstance(x, ast.Call) and dotted(x.func) == "isinstance" and isinstance(x.args[1], (ast.BinOp, ast.Tuple)) and "footnote" in unparse(x.args[1])), None) if tif2 is not None else None
    add("c11-revert-404c5d4-promoted-title-not-counted", "C11.R9", tm, qcall.args[1] if qcall is not None else None, "nodes.footnote", "not the first element", True)
    add("c11-transition-guard-ignores-all-prebibliographic-nodes", "C11.R9", tm, qcall.args[1] if qcall is not None else None, "nodes.footnote | nodes.PreBibliographic", "not the first element")
    # ---- R9 (d): revert of fix 5f2b310 and partial weakenings (the footnote transition is not re-checked before Transitions)
    np_ = find_stmt(cf, lambda n: isinstance(n, ast.Expr) and isinstance(n.value, ast.Call) and isinstance(n.value.func, ast.Attribute) and n.value.func.attr == "note_pending" and "transition" in unparse(n))
    add("c11-revert-5f2b310-transition-not-rechecked", "C11.R9", tm, np_, "pass", "re-checked after docutils removed", True)
    pcall = next((x for x in ast.walk(np_) if isinstance(x, ast.Call) and cf.module.resolve(dotted(x.func) or "") == "docutils.nodes.pending" and x.args), None) if np_ is not None else None
    dci = tm.classes.get(unparse(pcall.args[0])) if pcall is not None else None
    if dci is not None:
        pr = _class_attr_stmt(tm, dci.name, "default_priority")
        add("c11-recheck-runs-before-contents-is-removed", "C11.R9", tm, pr.value if pr else None, "Footnotes.default_priority + 4", "re-checked after docutils removed")
        add("c11-recheck-runs-after-transitions", "C11.R9", tm, pr.value if pr else None, "Transitions.default_priority + 1", "re-checked after docutils removed")
        dap = dci.methods.get("apply")
        q_ = find_node(dap, lambda n: isinstance(n, ast.Call) and dotted(n.func) == "all") if dap is not None else None
        add("c11-recheck-removes-when-any-leading-node", "C11.R9", tm, q_.func if q_ is not None else None, "any", "re-checked after docutils removed")
        ic_ = find_node(dap, lambda n: isinstance(n, ast.Call) and dotted(n.func) == "isinstance" and isinstance(n.args[1], (ast.BinOp, ast.Tuple))) if dap is not None else None
        add("c11-recheck-forgets-subtitle", "C11.R9", tm, ic_.args[1] if ic_ is not None else None, "nodes.title | nodes.system_message", "re-checked after docutils removed")
        # the class set is widened to a superclass that also covers content nodes (class of seed9 out-c11/1)
        add("c11-recheck-ignores-all-prebibliographic-nodes", "C11.R9", tm, ic_.args[1] if ic_ is not None else None, "nodes.PreBibliographic", "re-checked after docutils removed")
        add("c11-recheck-ignores-invisible-nodes", "C11.R9", tm, ic_.args[1] if ic_ is not None else None, "nodes.title | nodes.subtitle | nodes.system_message | nodes.Invisible", "re-checked after docutils removed")
        if np_ is not None:
            ni_ = " " * np_.col_offset
            add("c11-recheck-registered-only-without-sections", "C11.R9", tm, np_, f"if not list(self.document.findall(nodes.section)):\n{ni_}    " + _seg(tm, np_).replace("\n", "\n    "), "re-checked after docutils removed")
    else:
        out.append(("c11-recheck-runs-before-contents-is-removed", "pending transform class of the footnote transition not found"))
    # ---- R3: revert of fix f7f28d7 (definitions nested in a dropped duplicate are lost)
    dupif2 = find_node(dfn, lambda n: isinstance(n, ast.If) and any(isinstance(x, ast.Return) for x in n.body) and any(isinstance(x, ast.Expr) and "create_warning" in unparse(x) for x in n.body))
    wl = next((x for x in dupif2.body if isinstance(x, (ast.While, ast.For))), None) if dupif2 is not None else None
    add("c11-revert-f7f28d7-nested-definitions-dropped-with-duplicate", "C11.R3", base, wl, "pass", "nested in the duplicate", True)
    if wl is not None:
        wi_ = " " * wl.col_offset
        disp = next((x for x in ast.walk(wl) if isinstance(x, ast.Expr) and isinstance(x.value, ast.Call) and isinstance(x.value.func, ast.Attribute) and x.value.func.attr == dfn.name), None)
        tchk = next((x for x in ast.walk(wl) if isinstance(x, ast.If) and disp is not None and disp in x.body), None)
        if disp is not None and tchk is not None and tchk.orelse:
            ev_ = unparse(disp.value.args[0])
            # flat traversal of all descendants (class of seed7 out-c11/2)
            add("c11-nested-definitions-found-by-flat-walk", "C11.R3", base, wl, f"for {ev_} in token.walk(include_self=False):\n{wi_}    if {_seg(base, tchk.test)}:\n{wi_}        {_seg(base, disp)}", "nested in the duplicate")
            # dispatched and searched again
            add("c11-nested-definitions-dispatched-and-searched", "C11.R3", base, tchk, f"if {_seg(base, tchk.test)}:\n{' ' * disp.col_offset}{_seg(base, disp)}\n{' ' * tchk.col_offset}{_seg(base, tchk.orelse[0])}", "nested in the duplicate")
            # containers are not searched
            add("c11-nested-definitions-direct-children-only", "C11.R3", base, tchk.orelse[0], "pass", "nested in the duplicate")
    # ---- R7: the stored option is not exactly the configuration value (class of recorded seed C11-b1)
    fin0 = base.functions.get("DocutilsRenderer._render_finalise")
    st0 = find_stmt(fin0, lambda n: isinstance(n, ast.Assign) and isinstance(n.targets[0], ast.Attribute) and n.targets[0].attr == "myst_footnote_sort") if fin0 is not None else None
    add("c11-stored-option-prefers-settings-value", "C11.R7", base, st0.value if st0 is not None else None, f"getattr(self.document.settings, \"myst_footnote_sort\", None) or {_seg(base, st0.value) if st0 is not None else ''}", "setting myst_footnote_sort")
    # a parser object shared between documents whose configuration option is not refreshed (the unsafe variant of recorded seed C02-b2)
    pmod_ = corpus.mod("parsers.mdit")
    for mid, modname, fq_, refresh in (
        ("c11-shared-md-parser-keeps-first-config", "parsers.docutils_", "Parser.parse", False),
        ("c11-shared-md-parser-refreshed-only-when-created", "parsers.sphinx_", "MystParser.parse", None),
    ):
        fmod = corpus.mod(modname)
        pfn = fmod.functions.get(fq_)
        ccall = find_node(pfn, lambda n: isinstance(n, ast.Call) and _is_name(n.func, "create_md_parser")) if pfn is not None else None
        if ccall is None or "import create_md_parser" not in fmod.src:
            out.append((mid, "create_md_parser(...) call / import not found"))
            continue
        new_front = splice(fmod.src, ccall.func, "get_md_parser").replace("import create_md_parser", "import create_md_parser, get_md_parser", 1)
        body = (
            "\n\n_PARSERS: dict = {}\n\n\ndef get_md_parser(config, renderer):\n"
            "    key = (renderer, tuple(sorted(config.enable_extensions)), tuple(config.disable_syntax))\n"
            "    if key not in _PARSERS:\n"
            "        _PARSERS[key] = create_md_parser(config, renderer)\n"
            + ("        _PARSERS[key].options[\"myst_config\"] = config\n" if refresh is None else "")
            + "    return _PARSERS[key]\n"
        )
        out.append(Mutant(mid, "C11.R7", fmod.rel, new_front, expect="configuration is built from this document", more={pmod_.rel: pmod_.src + body}))
    # ---- R7
    fin = base.func("DocutilsRenderer._render_finalise") if "DocutilsRenderer._render_finalise" in base.functions else None
    if fin is not None:
        st = find_stmt(fin, lambda n: isinstance(n, ast.Assign) and isinstance(n.targets[0], ast.Attribute) and n.targets[0].attr == "myst_footnote_sort")
        add("c11-sort-setting-from-transition-field", "C11.R7", base, st.value if st is not None else None, "self.md_config.footnote_transition", "myst_footnote_sort")
        st2 = find_stmt(fin, lambda n: isinstance(n, ast.Assign) and isinstance(n.targets[0], ast.Attribute) and n.targets[0].attr == "myst_footnote_transition")
        if st2 is not None:
            add("c11-transition-setting-only-with-slugs", "C11.R7", base, st2, "if self._heading_slugs:\n            " + _seg(base, st2).replace("\n", "\n    "), "myst_footnote_transition")
    # ---- R4/R10: the sorter must permute the registry, ranked by first reference (classes of seeds out-c03/2, out-c11/1)
    srt = find_stmt(sf, lambda n: isinstance(n, ast.Expr) and isinstance(n.value, ast.Call) and isinstance(n.value.func, ast.Attribute) and n.value.func.attr == "sort" and _doc_attr(n.value.func.value, "autofootnotes"))
    if srt is not None and kwarg(srt.value, "key") is not None:
        regx = unparse(srt.value.func.value)
        k = unparse(kwarg(srt.value, "key"))
        add("c11-sorter-drops-nameless", "C11.R4", tm, srt, f"{regx}[:] = sorted((node for node in {regx} if node['names']), key={k})", "sorts document.autofootnotes")
        add("c11-sorter-drops-unreferenced", "C11.R4", tm, srt, f"{regx} = sorted([fn for fn in {regx} if fn['names'] and fn['names'][0] in ref_order], key={k})", "sorts document.autofootnotes")
        add("c11-sorter-rebuilds-permutation", "C11.R4", tm, srt, f"{regx}[:] = sorted({regx}, key={k}, reverse=True)", "reverse")
    else:
        out.append(("c11-sorter-drops-nameless", "document.autofootnotes.sort(key=...) not found"))
    lc = find_node(sf, lambda n: isinstance(n, ast.ListComp) and any(_doc_attr(x, "autofootnote_refs") for x in ast.walk(n)))
    skf = tm.functions.get("SortFootnotes.apply._sort_key")
    idx = find_node(skf, lambda n: isinstance(n, ast.Call) and isinstance(n.func, ast.Attribute) and n.func.attr == "index") if skf is not None else None
    if lc is not None and idx is not None and len(lc.generators) == 1 and isinstance(lc.generators[0].target, ast.Name):
        g = lc.generators[0]
        v = g.target.id
        conds = "".join(f" if {_seg(tm, c)}" for c in g.ifs)
        tbl = unparse(idx.func.value)
        lookup = f"{tbl}[{_seg(tm, idx.args[0])}]"
        # later edit first (the key function follows the table)
        src = splice(tm.src, idx, lookup)
        src1 = splice(src, lc, "{" + f"{_seg(tm, lc.elt)}: _i for _i, {v} in enumerate({_seg(tm, g.iter)}){conds}" + "}")
        out.append(Mutant("c11-rank-by-last-reference-dictcomp", "C11.R10", tm.rel, src1, expect="rank of a referenced footnote", canary=False))
        lc_stmt = next((a for a in [lc, *ancestors(lc)] if isinstance(a, ast.stmt)), None)
        ind = " " * lc_stmt.col_offset
        loop_txt = f"{tbl}: dict = {{}}\n{ind}for _i, {v} in enumerate({_seg(tm, g.iter)}):\n{ind}    " + (f"if {' and '.join(_seg(tm, c) for c in g.ifs)}:\n{ind}        " if g.ifs else "") + f"{tbl}[{_seg(tm, lc.elt)}] = _i"
        out.append(Mutant("c11-rank-by-last-reference-loop", "C11.R10", tm.rel, splice(src, lc_stmt, loop_txt), expect="rank of a referenced footnote"))
        out.append(Mutant("c11-rank-from-reversed-references", "C11.R10", tm.rel, splice(tm.src, g.iter, f"reversed({_seg(tm, g.iter)})"), expect="rank of a referenced footnote"))
        # index table over the label list, later entries overwrite earlier ones (last reference wins)
        tbl2 = f"_rank_of: dict = {{}}\n{ind}for _i, _name in enumerate({tbl}):\n{ind}    _rank_of[_name] = _i"
        src2 = splice(tm.src, idx, f"_rank_of[{_seg(tm, idx.args[0])}]")
        out.append(Mutant("c11-rank-table-over-labels-last-wins", "C11.R10", tm.rel, splice(src2, lc_stmt, _seg(tm, lc_stmt) + f"\n{ind}" + tbl2), expect="rank of a referenced footnote"))
    else:
        out.append(("c11-rank-by-last-reference-dictcomp", "label list / .index() lookup of SortFootnotes not found"))
    # collector: a definition skipped while gathering (class of seed out-c03/2 on the collector side)
    if gather is not None:
        first = gather.body[0]
        gi = " " * first.col_offset
        tv = unparse(gather.target)
        add("c11-collector-skips-unreferenced", "C11.R4", tm, first, f"if not {tv}['backrefs']:\n{gi}    continue\n{gi}{_seg(tm, first)}", "gathers every footnote")
    # collector gated by the transition setting through an early return (class of seed out-c11/3)
    if loop is not None:
        li = " " * loop.col_offset
        add("c11-collector-returns-early-without-transition", "C11.R4", tm, loop, f"if not {_reread(g_sort, 'myst_footnote_transition') if g_sort is not None else 'self.document.myst_footnote_transition'}:\n{li}    return\n{li}{_seg(tm, loop)}", "move loop|guard")
    # ---- R11: the unreferenced-footnote detector (class of seed2 out-c11/3: reports collapse / stop early)
    det = tm.functions.get("UnreferencedFootnotesDetector.apply")
    if det is None:
        out.append(("c11-unreferenced-collapsed-by-message", "UnreferencedFootnotesDetector.apply not found"))
    else:
        dloops = sorted([n for n in det.local_nodes() if isinstance(n, ast.For) and any(_doc_attr(x, r_) for x in ast.walk(n.iter) for r_ in FOOTNOTE_REGISTRIES)], key=lambda n: n.lineno)
        warns = []
        for dl in dloops:
            w_ = next((x for x in ast.walk(dl) if isinstance(x, ast.Expr) and isinstance(x.value, ast.Call) and (dotted(x.value.func) or "").endswith("create_warning")), None)
            if w_ is not None and len(w_.value.args) >= 2 and isinstance(dl.target, ast.Name):
                warns.append((dl, w_))
        auto = next(((dl, w_) for dl, w_ in warns if any(_doc_attr(x, "autofootnotes") for x in ast.walk(dl.iter))), None)
        if warns and auto is not None:
            # collapse: gather in a dict keyed by the message, report afterwards (edits applied bottom-up)
            src = tm.src
            last = warns[-1][0]
            ind = " " * dloops[0].col_offset
            tail = f"\n{ind}for _message, _node in _unreferenced.items():\n{ind}    create_warning(self.document, _message, wtype=\"ref\", subtype=\"footnote\", node=_node)"
            src = splice(src, last, _seg(tm, last) + tail)
            for dl, w_ in reversed(warns):
                src = splice(src, w_, f"_unreferenced[{_seg(tm, w_.value.args[1])}] = {dl.target.id}") if dl is not last else src
            # the last loop was already re-emitted with its tail: redo its statement inside the new text
            seg_last = _seg(tm, last)
            w_last = warns[-1][1]
            src = src.replace(seg_last, seg_last.replace(_seg(tm, w_last), f"_unreferenced[{_seg(tm, w_last.value.args[1])}] = {last.target.id}"), 1)
            first = dloops[0]
            lines = src.splitlines(keepends=True)
            src = "".join(lines[: first.lineno - 1]) + f"{ind}_unreferenced = {{}}\n" + "".join(lines[first.lineno - 1 :])
            out.append(Mutant("c11-unreferenced-collapsed-by-message", "C11.R11", tm.rel, src, expect="are one per footnote"))
            dl, w_ = auto
            wi = " " * w_.col_offset
            add("c11-unreferenced-only-first-reported", "C11.R11", tm, w_, _seg(tm, w_) + f"\n{wi}break", "reported exactly once")
            src = splice(tm.src, w_, f"if \"auto\" not in _seen:\n{wi}    _seen.add(\"auto\")\n{wi}    " + _seg(tm, w_).replace("\n", "\n    "))
            lines = src.splitlines(keepends=True)
            src = "".join(lines[: dl.lineno - 1]) + f"{ind}_seen = set()\n" + "".join(lines[dl.lineno - 1 :])
            out.append(Mutant("c11-unreferenced-deduplicated-by-kind", "C11.R11", tm.rel, src, expect="reported exactly once"))
            reg = next((x for x in ast.walk(dl.iter) if _doc_attr(x, "autofootnotes")), None)
            add("c11-unreferenced-auto-registry-not-examined", "C11.R11", tm, reg, f"{unparse(reg.value)}.footnotes" if reg is not None else "", "examines document.autofootnotes")
            tst = next((x for x in ast.walk(dl) if isinstance(x, ast.UnaryOp) and isinstance(x.op, ast.Not) and _sub_of(x.operand, dl.target.id, "backrefs")), None)
            add("c11-unreferenced-test-inverted", "C11.R11", tm, tst, _seg(tm, tst.operand) if tst is not None else "", "autofootnotes|")
        else:
            out.append(("c11-unreferenced-collapsed-by-message", "registry loops with a create_warning statement not found"))
    # ---- R8
    ck = tm.functions.get("CollectFootnotes.apply._sort_key")
    if ck is not None:
        rets = sorted([n for n in ck.local_nodes() if isinstance(n, ast.Return) and isinstance(n.value, ast.Tuple)], key=lambda n: n.lineno)
        conv = [r for r in rets if any(isinstance(x, ast.Call) and dotted(x.func) == "int" for x in ast.walk(r.value))]
        rest = [r for r in rets if r not in conv]
        if len(conv) == 1 and len(rest) == 1:
            c_int = next(x for x in ast.walk(conv[0].value) if isinstance(x, ast.Call) and dotted(x.func) == "int")
            s_lab = next((x for x in rest[0].value.elts if isinstance(x, ast.Name)), None)
            if s_lab is not None:
                # revert of fix 660401f (later edit first)
                a_, b_ = sorted([(conv[0].value, _seg(tm, c_int)), (rest[0].value, s_lab.id)], key=lambda t: -t[0].lineno)
                src = splice(splice(tm.src, a_[0], a_[1]), b_[0], b_[1])
                out.append(Mutant("c11-revert-660401f-collector-key-int-or-str", "C11.R8", tm.rel, src, expect="CollectFootnotes.apply._sort_key"))
            else:
                out.append(("c11-revert-660401f-collector-key-int-or-str", "fallback return has no label element"))
        else:
            out.append(("c11-revert-660401f-collector-key-int-or-str", "collector key no longer returns two tuples"))
    sk = tm.functions.get("SortFootnotes.apply._sort_key")
    if sk is not None:
        n = find_node(sk, lambda n: isinstance(n, ast.Return) and isinstance(n.value, ast.Constant))
        add("c11-sorter-key-mixed-kinds", "C11.R8", tm, n.value if n is not None else None, '"last"', "SortFootnotes.apply._sort_key")
    # ---- R9
    if tif is not None:
        n = next((x for x in ast.walk(tif.test) if isinstance(x, ast.UnaryOp) and isinstance(x.op, ast.Not) and "children" in unparse(x)), None)
        add("c11-transition-may-open-document", "C11.R9", tm, n, "True", "not the first element")
        # the quantifier over the document's children is weakened / inverted (class of seed6 out-c11/3)
        if n is not None:
            add("c11-transition-guard-looks-at-first-child-only", "C11.R9", tm, n, "not isinstance(self.document.children[0], nodes.footnote)", "not the first element")
            add("c11-transition-guard-looks-at-last-child-only", "C11.R9", tm, n, "not isinstance(self.document.children[-1], nodes.footnote)", "not the first element")
            add("c11-transition-guard-no-child-is-a-footnote", "C11.R9", tm, n, "not any(isinstance(c, nodes.footnote) for c in self.document.children)", "not the first element")
            # the class test applied to one child picked with next() instead of all children (class of recorded seed C11-f3)
            cspec = next((x.args[1] for x in ast.walk(n) if isinstance(x, ast.Call) and dotted(x.func) == "isinstance" and len(x.args) == 2), None)
            if cspec is not None:
                u_ = " ".join(_seg(tm, cspec).split())
                add("c11-transition-guard-first-content-child-only", "C11.R9", tm, n, f"not isinstance(next((c for c in self.document.children if not isinstance(c, nodes.title | nodes.subtitle)), self.document.children[0]), {u_})", "not the first element")
                add("c11-transition-guard-computed-index-child", "C11.R9", tm, n, f"not isinstance(self.document.children[len(self.document.children) // 2], {u_})", "not the first element")
        # the look-out for a final transition stops at the top level (class of seed3 out-c11/3)
        ewt = next((h for _c, h in _helper_calls(cf) if any(_tests_transition(h, x) for x in h.local_nodes())), None)
        wloop = find_node(ewt, lambda n: isinstance(n, (ast.While, ast.For))) if ewt is not None else None
        if wloop is not None:
            adv = next((st for st in reversed(wloop.body) if isinstance(st, ast.Assign) and isinstance(st.targets[0], ast.Name)), None)
            add("c11-final-transition-lookout-never-advances", "C11.R9", tm, adv, "return False", "ends the last section")
            wi = " " * wloop.col_offset
            add(
                "c11-final-transition-lookout-top-level-only",
                "C11.R9",
                tm,
                wloop,
                f"children = [c for c in self.document.children if not isinstance(c, nodes.footnote)]\n{wi}return bool(children) and isinstance(children[-1], nodes.transition)",
                "ends the last section",
            )
        else:
            out.append(("c11-final-transition-lookout-never-advances", "helper with the transition test and a loop not found"))
        # revert of fix f4651d8: nothing looks at a transition that already ends the document
        n = next((x for x in ast.walk(tif.test) if isinstance(x, ast.UnaryOp) and isinstance(x.op, ast.Not) and "transition" in unparse(x.operand).lower() and "children" not in unparse(x)), None)
        add("c11-revert-f4651d8-transition-after-transition", "C11.R9", tm, n, "True", "not adjacent to an existing transition")
    return out


def _move_loop_into_if(m: Module, tif: ast.If, loop: ast.For) -> str:
    """The move loop re-indented under the transition test (placed after the key function it needs)."""
    lines = m.src.splitlines(keepends=True)
    if_lines = lines[tif.lineno - 1 : tif.end_lineno]
    loop_lines = ["    " + l for l in lines[loop.lineno - 1 : loop.end_lineno]]
    between = lines[tif.end_lineno : loop.lineno - 1]
    return "".join(lines[: tif.lineno - 1] + between + if_lines + loop_lines + lines[loop.end_lineno :])
